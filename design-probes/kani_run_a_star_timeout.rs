#[cfg(kani)]
mod kani_probe {
    use crate::algorithm::search::a_star::a_star_algorithm::run_a_star;
    use crate::algorithm::search::backtrack::vertex_oriented_route;
    use crate::algorithm::search::direction::Direction;
    use crate::algorithm::search::search_instance::SearchInstance;
    use crate::model::access::default::no_access_model::NoAccessModel;
    use crate::model::cost::cost_aggregation::CostAggregation;
    use crate::model::cost::cost_model::CostModel;
    use crate::model::cost::vehicle::vehicle_cost_rate::VehicleCostRate;
    use crate::model::frontier::default::no_restriction::NoRestriction;
    use crate::model::network::graph::Graph;
    use crate::model::network::{Edge, EdgeId, Vertex, VertexId};
    use crate::model::state::state_feature::StateFeature;
    use crate::model::state::state_model::StateModel;
    use crate::model::termination::termination_model::TerminationModel;
    use crate::model::traversal::default::distance_traversal_model::DistanceTraversalModel;
    use crate::model::unit::{Cost, Distance, DistanceUnit};
    use crate::util::compact_ordered_hash_map::CompactOrderedHashMap;
    use std::collections::HashMap;
    use std::sync::Arc;

    const NV: usize = 3;
    const NE: usize = 3;

    fn any_graph() -> Graph {
        let vertices = vec![Vertex::new(0, 0.0, 0.0), Vertex::new(1, 0.0, 0.0), Vertex::new(2, 0.0, 0.0)];
        let mut edges = vec![];
        let mut i = 0;
        while i < NE {
            let s: usize = kani::any(); let d: usize = kani::any(); let w: u8 = kani::any();
            kani::assume(s < NV && d < NV && w >= 1 && w <= 10);
            edges.push(Edge::new(i, s, d, w as f64));
            i += 1;
        }
        let mut adj = vec![CompactOrderedHashMap::empty(); NV];
        let mut rev = vec![CompactOrderedHashMap::empty(); NV];
        for edge in &edges {
            adj[edge.src_vertex_id.0].insert(edge.edge_id, edge.dst_vertex_id);
            rev[edge.dst_vertex_id.0].insert(edge.edge_id, edge.src_vertex_id);
        }
        Graph { adj: adj.into_boxed_slice(), rev: rev.into_boxed_slice(), edges: edges.into_boxed_slice(), vertices: vertices.into_boxed_slice() }
    }

    #[kani::proof]
    #[kani::unwind(6)]
    fn probe_astar() {
        let state_model = Arc::new(StateModel::empty().extend(vec![(String::from("distance"),
            StateFeature::Distance { distance_unit: DistanceUnit::Meters, initial: Distance::new(0.0) })]).unwrap());
        let cost_model = CostModel::new(
            Arc::new(HashMap::from([(String::from("distance"), 1.0)])),
            Arc::new(HashMap::from([(String::from("distance"), VehicleCostRate::Raw)])),
            Arc::new(HashMap::new()), CostAggregation::Sum, state_model.clone()).unwrap();
        let si = SearchInstance {
            directed_graph: Arc::new(any_graph()),
            state_model: state_model.clone(),
            traversal_model: Arc::new(DistanceTraversalModel::new(DistanceUnit::Meters)),
            access_model: Arc::new(NoAccessModel {}),
            cost_model: Arc::new(cost_model),
            frontier_model: Arc::new(NoRestriction {}),
            termination_model: Arc::new(TerminationModel::IterationsLimit { limit: 20 }),
        };
        let r = run_a_star(VertexId(0), Some(VertexId(2)), &Direction::Forward, Some(Cost::ZERO), &si);
        if let Ok(sr) = r {
            let route = vertex_oriented_route(VertexId(0), VertexId(2), &sr.tree);
            if let Ok(rt) = route {
                assert!(rt.len() >= 1);
                let last = si.directed_graph.get_edge(&rt[rt.len()-1].edge_id).unwrap();
                assert!(last.dst_vertex_id == VertexId(2));
            }
        }
    }
}
