use vstd::prelude::*;
verus! {

pub uninterp spec fn f64_real(x: f64) -> real;

#[derive(Copy, Clone)]
pub struct Distance(pub f64);
impl Distance { pub open spec fn view(self) -> real { f64_real(self.0) } }
pub uninterp spec fn dist_mul(a: Distance, b: f64) -> Distance;
pub broadcast axiom fn dist_mul_ax(a: Distance, b: f64) ensures #[trigger] dist_mul(a, b)@ == a@ * f64_real(b);
impl vstd::std_specs::ops::MulSpecImpl<f64> for Distance {
    open spec fn obeys_mul_spec() -> bool { true }
    open spec fn mul_req(self, rhs: f64) -> bool { true }
    open spec fn mul_spec(self, rhs: f64) -> Distance { dist_mul(self, rhs) }
}
impl core::ops::Mul<f64> for Distance {
    type Output = Distance;
    #[verifier::external_body]
    fn mul(self, rhs: f64) -> (r: Distance)
    { Distance(self.0 * rhs) }
}
// generated literal axioms
pub broadcast axiom fn lit_1() ensures #[trigger] f64_real(0.001f64) == 0.001real;
pub broadcast axiom fn lit_2() ensures #[trigger] f64_real(1000.0f64) == 1000.0real;
pub broadcast axiom fn lit_3() ensures #[trigger] f64_real(0.0006215040398f64) == 0.0006215040398real;
pub broadcast axiom fn lit_4() ensures #[trigger] f64_real(1609.34f64) == 1609.34real;
pub broadcast axiom fn lit_5() ensures #[trigger] f64_real(0.6215040398f64) == 0.6215040398real;
pub broadcast axiom fn lit_6() ensures #[trigger] f64_real(1.60934f64) == 1.60934real;
broadcast group lits { lit_1, lit_2, lit_3, lit_4, lit_5, lit_6 }

#[derive(Clone, Copy, PartialEq, Eq)]
pub enum DistanceUnit {
    Meters,
    Kilometers,
    Miles,
}

pub open spec fn k(a: DistanceUnit, b: DistanceUnit) -> real {
    match (a, b) {
        (DistanceUnit::Meters, DistanceUnit::Kilometers) => 0.001real,
        (DistanceUnit::Kilometers, DistanceUnit::Meters) => 1000.0real,
        (DistanceUnit::Meters, DistanceUnit::Miles) => 0.0006215040398real,
        (DistanceUnit::Miles, DistanceUnit::Meters) => 1609.34real,
        (DistanceUnit::Kilometers, DistanceUnit::Miles) => 0.6215040398real,
        (DistanceUnit::Miles, DistanceUnit::Kilometers) => 1.60934real,
        _ => 1real,
    }
}

impl DistanceUnit {
    pub fn convert(&self, value: &Distance, target: &DistanceUnit) -> (r: Distance)
        ensures
            // linear with a factor that depends only on the unit pair
            r@ == k(*self, *target) * value@,
    {
        broadcast use lits; broadcast use dist_mul_ax;
        use DistanceUnit as S;
        match (self, target) {
            (S::Meters, S::Meters) => *value,
            (S::Meters, S::Kilometers) => *value * 0.001,
            (S::Meters, S::Miles) => *value * 0.0006215040398,
            (S::Kilometers, S::Meters) => *value * 1000.0,
            (S::Kilometers, S::Kilometers) => *value,
            (S::Kilometers, S::Miles) => *value * 0.6215040398,
            (S::Miles, S::Meters) => *value * 1609.34,
            (S::Miles, S::Kilometers) => *value * 1.60934,
            (S::Miles, S::Miles) => *value,
        }
    }
}


pub open spec fn phys_m(a: DistanceUnit) -> real { match a { DistanceUnit::Meters => 1real, DistanceUnit::Kilometers => 1000real, DistanceUnit::Miles => 1609.344real } }
proof fn table_props(a: DistanceUnit, b: DistanceUnit)
    ensures
        k(a, a) == 1real,
        0.999real <= k(a, b) * k(b, a) <= 1.001real,
        0.999real * phys_m(a) <= k(a, b) * phys_m(b) <= 1.001real * phys_m(a),
{}
} // verus!
fn main() {}
