use vstd::prelude::*;
verus! {
pub fn find_nearest_index(arr: &[f64], target: f64) -> Result<usize, String> {
    if &target
        == arr
            .last()
            .ok_or("Could not get last grid value of arr, is arr empty?")?
    {
        return Ok(arr.len() - 2);
    }

    let mut low = 0;
    let mut high = arr.len() - 1;

    while low < high {
        let mid = low + (high - low) / 2;

        if arr[mid] >= target {
            high = mid;
        } else {
            low = mid + 1;
        }
    }

    if low > 0 && arr[low] >= target {
        Ok(low - 1)
    } else {
        Ok(low)
    }
}
} // verus!
fn main() {}
