#[cfg(kani)]
mod kani_probe2 {
    use crate::algorithm::component::scc::all_strongly_connected_componenets;
    use crate::model::network::graph::Graph;
    use crate::model::network::{Edge, Vertex, VertexId};
    use crate::util::compact_ordered_hash_map::CompactOrderedHashMap;
    use crate::util::multiset::MultiSet;

    const NV: usize = 3;
    const NE: usize = 3;

    fn any_graph() -> Graph {
        let vertices = vec![Vertex::new(0, 0.0, 0.0), Vertex::new(1, 0.0, 0.0), Vertex::new(2, 0.0, 0.0)];
        let mut edges = vec![];
        let mut i = 0;
        while i < NE {
            let s: usize = kani::any(); let d: usize = kani::any();
            kani::assume(s < NV && d < NV);
            edges.push(Edge::new(i, s, d, 1.0));
            i += 1;
        }
        let mut adj = vec![CompactOrderedHashMap::empty(); NV];
        let mut rev = vec![CompactOrderedHashMap::empty(); NV];
        for edge in &edges {
            adj[edge.src_vertex_id.0].insert(edge.edge_id, edge.dst_vertex_id);
            rev[edge.dst_vertex_id.0].insert(edge.edge_id, edge.src_vertex_id);
        }
        Graph { adj: adj.into_boxed_slice(), rev: rev.into_boxed_slice(), edges: edges.into_boxed_slice(), vertices: vertices.into_boxed_slice() }
    }

    #[kani::proof]
    #[kani::unwind(6)]
    fn probe_scc() {
        let g = any_graph();
        let comps = all_strongly_connected_componenets(&g).unwrap();
        let mut total = 0;
        let mut i = 0;
        while i < comps.len() { total += comps[i].len(); i += 1; }
        assert!(total == NV);
    }

    #[kani::proof]
    #[kani::unwind(12)]
    fn probe_multiset() {
        let a: usize = kani::any(); let b: usize = kani::any();
        kani::assume(a >= 1 && a <= 3 && b >= 1 && b <= 3);
        let sets: Vec<Vec<usize>> = vec![(0..a).collect(), (0..b).collect()];
        let ms = MultiSet::from(&sets);
        let mut n = 0;
        for _c in ms { n += 1; assert!(n <= 9); }
        assert!(n == a * b);
    }
}
