#!/bin/bash
# MANIFEST.setup_cmd: builds the Kani artifacts of the third-party dependencies once
# (into /verif/.cache/kani-base), from files on disk only.  The checks work without it
# (they then build the dependencies themselves, ~1 min slower per run).
set -u
cd "$(dirname "$0")"
export CARGO_NET_OFFLINE=true
S=/tmp/verif-scratch/setup.$$
rm -rf "$S" .cache/kani-base.tmp; mkdir -p "$S" .cache
rsync -a --exclude /target --exclude /.git /repo/rust/ "$S/rust/"
[ -f "$S/rust/Cargo.lock" ] || cp /repo/rust/Cargo.lock "$S/rust/" 2>/dev/null
rc=0
for c in routee-compass-core routee-compass-powertrain routee-compass; do
  (cd "$S/rust" && cargo kani -p $c --target-dir "$PWD/../target" --only-codegen >"$S/$c.log" 2>&1) || { rc=1; tail -20 "$S/$c.log"; }
done
if [ $rc = 0 ]; then
  rm -rf .cache/kani-base; mv "$S/target" .cache/kani-base
  echo "kani dependency cache ready: $(du -sh .cache/kani-base | cut -f1)"
else
  echo "warning: could not pre-build the Kani dependency cache; checks will build dependencies themselves"
fi
rm -rf "$S"; rmdir /tmp/verif-scratch 2>/dev/null
# Verus warm-up (first run unpacks vstd metadata)
printf 'use vstd::prelude::*;\nverus!{ proof fn t() ensures 1+1==2int {} }\nfn main(){}\n' > .cache/warm.rs
verus .cache/warm.rs >/dev/null 2>&1; rm -f .cache/warm.rs
exit 0
