from driver import KaniUnit, VerusUnit, Harness as H
ID = "C02"
LEVEL = "other"
CORE = "routee-compass-core"
COST = CORE + "/src/model/unit/cost.rs"
rc = KaniUnit("c02_rc", CORE, modules=[dict(file=COST, src="c07_cost.rs")],
              contracts=[dict(file=COST, fn="Cost::enforce_strictly_positive", anchor=r"pub fn enforce_strictly_positive\(cost: Cost\) -> Cost",
                              attrs=["#[cfg_attr(kani, kani::requires(verif_c07_cost::esp_pre(&cost)))]", "#[cfg_attr(kani, kani::ensures(|r: &Cost| verif_c07_cost::esp_post(&cost, r)))]"]),
                         dict(file=COST, fn="Cost::enforce_non_negative", anchor=r"pub fn enforce_non_negative\(cost: Cost\) -> Cost",
                              attrs=["#[cfg_attr(kani, kani::requires(verif_c07_cost::esp_pre(&cost)))]", "#[cfg_attr(kani, kani::ensures(|r: &Cost| verif_c07_cost::enn_post(&cost, r)))]"])],
              harnesses=[H("c02_reverse_cost_order", "complete", "ReverseCost::from reverses the order of Cost for all non-NaN f64 (the priority queue is min-cost-first)", timeout=120),
                         H("c07_enn_contract", "complete", "the estimate clip: enforce_non_negative r >= 0 (heuristic term never negative)", timeout=120)])
lw = KaniUnit("c02_least_wit", CORE, modules=[dict(file=CORE + "/src/algorithm/search/search_instance.rs", src="world.rs"),
                                              dict(file=CORE + "/src/algorithm/search/search_algorithm.rs", src="c01_wit.rs")], harnesses=[])
lw.native_witnesses = ["c02_wit_tree_labels_are_least_costs"]
al = VerusUnit("al_astar", "al_astar", rlimit=60, paired_kani=(lw, []))
cm = VerusUnit("c07_costmodel", "c07_costmodel", rlimit=30)
sp = VerusUnit("c02_speed", "c02_speed", rlimit=30)
cw = KaniUnit("c02_cost_service_wit", "routee-compass", modules=[dict(file="routee-compass/src/app/compass/config/cost_model/cost_model_service.rs", src="c02_cost_service_wit.rs")], harnesses=[])
cw.native_witnesses = ["c02_wit_query_rates_and_weights_are_the_ones_in_force"]
cb = VerusUnit("c02_cost_build", "c02_cost_build", rlimit=30, paired_kani=(cw, []))
rw = KaniUnit("c07_rate_wit", CORE, modules=[dict(file=CORE + "/src/model/cost/vehicle/vehicle_cost_rate.rs", src="c07_rate_wit.rs")], harnesses=[])
rw.native_witnesses = ["c07_wit_combined_rate_applies_members_in_order"]
rt = VerusUnit("c07_rate", "c07_rate", rlimit=30, paired_kani=(rw, []))
eo = VerusUnit("c01_edge_oriented", "c01_edge_oriented", rlimit=60, clauses=r"callers\.[01]")
hw = KaniUnit("c16_haversine_wit", "routee-compass-core", modules=[dict(file="routee-compass-core/src/util/geo/haversine.rs", src="c16_haversine_wit.rs")], harnesses=[])
hw.native_witnesses = ["c16_wit_great_circle_distance_agrees_with_an_independent_formula"]
UNITS = [al, cm, sp, rc, cb, rt, eo, cw, rw, hw, lw]
EXPLANATION = ("Optimality is decided for ONE case only -- a search WITHOUT a destination (the tree of all reachable vertices), any network, any direction, edge costs that do not depend on how the edge was reached "
               "(hypothesis cost_local: perform_edge_traversal charges ONE number per edge) and an edge-local frontier model: invariant BELL on the verbatim run_a_star (every incident edge of a vertex that was expanded and is "
               "not waiting in the queue again is refused or relaxed: label(far) <= label(near) + cost) gives Bellman potentials at queue exhaustion (postcondition least_post), and three lemmas by induction "
               "(lemma_label_le_path, lemma_chain_cost_le_label, lemma_tree_route_least) conclude that the cost accumulated along the chain of parent links the tree stores for a vertex is <= the cost of EVERY permitted path "
               "from the source to it: the routes of the tree are least-cost routes.  For a search TOWARDS a destination (the loop stops when the destination is popped) least cost is NOT decided (it needs a consistent heuristic and the "
               "settled-vertex argument); a native witness compares route costs with an all-pairs closure.  Also decided: the relaxation mechanism of run_a_star as contracts on the verbatim driver (Verus): a label is replaced only by a strictly smaller cost-so-far equal to the near vertex' "
               "label plus the edge's total cost; the vertex is re-queued with f = g + weighted estimate and its queue priority is never worse than that f (invariant Q: catches push_increase/push_decrease "
               "mix-ups and flipped comparisons); advance_search hands out a queued vertex of least f-score (assumed contract of the priority_queue crate + ReverseCost's order reversal, proved by Kani); "
               "the estimate is costed by cost_estimate (>= 0) on the traversal model's estimated state (SearchInstance::estimate_traversal_cost, Verus); "
               "time component of the heuristic (unit c02_speed, Verus on the verbatim speed-table model): get_max_speed returns a positive upper bound of the table that occurs in it; the engine built by "
               "SpeedTraversalEngine::new carries that bound (engine_wf); traverse_edge adds length / the edge's OWN table speed, estimate_traversal adds straight-line length / max_speed; lemmas: for equal length the "
               "estimate is never above the time at any table speed, and along any route the summed edge times are >= the estimate for the summed length (induction); "
               "'the weights and rates in force for that query, whether they come from the configuration or from the query itself' (unit c02_cost_build, Verus on the verbatim CostModelService::build and CostModel::new, any query, "
               "configuration and state model): the cost model built for a query costs the feature at EVERY state-model slot with the weight, vehicle rate and network rate of THAT feature's name (absent: the default), in slot order, "
               "the weights / vehicle rates / aggregation being the query's own where it carries them and the configured ones otherwise; an unreadable cost section is an error of that query, never a silent fallback; a weight for an unknown feature is refused unless told to ignore it; "
               "every vehicle rate (unit c07_rate, see C07): zero, the value, value x factor, value + offset, or -- combined -- the member rates applied ONE AFTER THE OTHER in order; "
               "run_a_star_edge_oriented (unit c01_edge_oriented) runs its inner searches in the caller's direction with the caller's WEIGHT FACTOR (Dijkstra is factor 0: dropping it would silently run A*) -- an obligation at every call site")
NOT_DECIDED = ("least total cost of a search TOWARDS a destination (settled-vertex argument under a consistent heuristic; only the destination-less tree search is proved least-cost); admissibility of the great-circle heuristic (transcendental functions, premise about the network); "
               "SearchAlgorithm dispatch beyond unit c01_dispatch (Dijkstra = weight factor 0, query override); parsing of the query's cost section (serde_json: a deterministic read per key and type); that the great-circle length is a lower bound of the network length (data premise)")
ASSUMPTIONS = ["HashMap<String, V> as an abstract map from names to values; StateModel::indexed_iter yields (slot, name) in slot order (C11); Clone returns an equal value", "priority_queue crate: push/push_increase/pop semantics as stated in the shim", "A-REAL (costs as extended reals)"]
