from driver import KaniUnit, VerusUnit, Harness as H
ID = "C13"
LEVEL = "other"
CORE = "routee-compass-core"
SIM = CORE + "/src/algorithm/search/util/route_similarity_function.rs"
TERM = CORE + "/src/algorithm/search/ksp/ksp_termination_criteria.rs"
YEN = CORE + "/src/algorithm/search/ksp/yens_algorithm.rs"
sim = KaniUnit("c13_sim", CORE,
               contracts=[dict(file=SIM, fn="RouteSimilarityFunction::is_similar", anchor=r"pub fn is_similar\(&self, similarity: f64\) -> bool",
                               attrs=["#[cfg_attr(kani, kani::ensures(|r: &bool| verif_c13_sim::is_similar_post(self, similarity, *r)))]"])],
               modules=[dict(file=SIM, src="c13_similarity.rs")],
               harnesses=[H("c13_is_similar_contract", "complete", "is_similar over the three variants x every f64 similarity/threshold: AcceptAll => false; thresholds => similarity >= threshold", timeout=120),
                          H("c13_accept_all_dominates", "complete", "AcceptAll rejects no candidate that any threshold accepts", timeout=120)])
term = KaniUnit("c13_term", CORE, modules=[dict(file=TERM, src="c13_termination.rs")],
                harnesses=[H("c13_ksp_terminate_search", "complete", "KspTerminationCriteria::terminate_search over all k, all solution sizes, all variants (Factor: factor <= 2^16, size <= 2^32 so the product fits): fires only at solution_size == k; Exact iff", timeout=120)])
yen = KaniUnit("c13_yen", CORE,
               exprs=[dict(file=YEN, name="c13_yen_spur_range", params="len: usize", ret="std::ops::Range<usize>",
                           anchor=r"for spur_idx in (?P<expr>0\.\.prev_accepted_path\.len\(\)[^{]*?) \{",
                           subst=[("prev_accepted_path.len()", "len")])],
               modules=[dict(file=CORE + "/src/algorithm/search/search_instance.rs", src="world.rs"), dict(file=YEN, src="c13_yen.rs")],
               harnesses=[H("c13_yen_spur_range_no_underflow", "complete", "yens_algorithm::run: the spur range `0..prev_accepted_path.len()<..>` neither underflows nor leaves the previous path, for any stored route (len >= 1)", timeout=120)])
yen.native_witnesses = ['c13_wit_yen_one_edge_route', 'c13_wit_yen_two_edge_route_returns', 'c13_wit_yen_three_edge_route_with_detour', 'c13_wit_yen_spur_vertex_without_alternative', 'c13_wit_yen_at_most_k_distinct_routes', 'c13_wit_yen_routes_are_loop_free', 'c13_wit_yen_no_two_routes_too_similar']
kw = KaniUnit("c01_wit", CORE, modules=[dict(file=CORE + "/src/algorithm/search/search_instance.rs", src="world.rs"),
                                       dict(file=CORE + "/src/algorithm/search/search_algorithm.rs", src="c01_wit.rs")], harnesses=[])
kw.native_witnesses = ["c01_wit_single_via_routes_are_walks", "c03_wit_ksp_routes_report_their_own_retraversal"]
sv = VerusUnit("c13_single_via", "c13_single_via", rlimit=60, paired_kani=(kw, []))
yr = VerusUnit("c13_yen_run", "c13_yen_run", rlimit=60, paired_kani=(yen, []))
cs = VerusUnit("c13_cosine", "c13_cosine", rlimit=30)
UNITS = [sv, yr, cs, sim, term, yen, kw]
EXPLANATION = ("single-via driver UNDER CONTRACT (unit c13_single_via, Verus, verbatim `run`, any graph / k / criteria / similarity function): at most k routes; with k >= 1 at least one and the first is the "
               "forward tree's own route to the target; every alternative is loop-free (route_contains_loop == two edges share a source vertex, verified) and is the forward tree's route to a via vertex followed by the "
               "reverse tree's route re-traversed in travel direction (reorient_reverse_route: edge order reversed, each edge traversed after its true predecessor from the state that predecessor left, verified); "
               "no two routes have the same edge sequence (test_id_similarity verified) and no later route is too similar to an earlier one under the configured function; with well-formed trees (TW of unit al_astar) "
               "every alternative is a contiguous source-to-target walk (lemma); the driver's loops TERMINATE (decreases: queue size), given that its callees do. "
               "Yen's driver UNDER CONTRACT as well (unit c13_yen_run, Verus, verbatim `run` / get_first_route / same_path): never more than k routes (one pass accepts one route), every route a contiguous walk from the query's "
               "source to its target (root prefix of the previous route joined to the spur search's route at the spur vertex; lemmas walk_prefix / walk_join), no alternative leaves a vertex twice, every route reports the state accumulated along ITS OWN edges (each edge traversed after the edge actually before it, from the state it left: `chained`), the spur range does not underflow, "
               "every spur-search outcome other than a result or 'no path' ends the query (ghost log; C10: a terminated sub-search is never swallowed), and all four loops TERMINATE (decreases k - accepted). Seven defects of the pinned "
               "driver were found on the way (underflow, endless loop, more than k / duplicate routes, an answerable query failed by one spur search, looping routes, spur halves whose state restarted at zero) and repaired in /repo. "
               "Kernels by Kani: the similarity decision and the stop criterion complete over their domains; Yen: expression-level call-site obligation on the spur range + witnesses for one- and two-edge routes (two defects found and fixed)")
NOT_DECIDED = ("that the first route is least-cost (C02 is not optimality); cos_similarity only as a composition (unit c13_cosine: cosine = dot(a, b) / (sqrt(sumsq a) * sqrt(sumsq b)) over ASSUMED helpers for its five HashMap/HashSet pipelines; symmetric); in the drivers the verdict is an uninterpreted deterministic function; "
               "SearchAlgorithm::run_vertex_oriented (assumed to hand through run_a_star's trees); Yen: that no two routes have the same edge sequence beyond what dissimilarity implies (no two routes are too similar IS decided: postcondition pairwise_dissim, failed on the pinned code, fixed a9f4484); termination of the underlying searches; `chained` of the FIRST route is an assumption on the underlying search (a tree path whose vertex was re-labelled after its child was labelled is not chained: possible only with re-opening, i.e. not for Dijkstra); what is proved is that Yen's construction preserves it")
