from driver import KaniUnit, VerusUnit, Harness as H
ID = "C13"
LEVEL = "other"
CORE = "routee-compass-core"
SIM = CORE + "/src/algorithm/search/util/route_similarity_function.rs"
TERM = CORE + "/src/algorithm/search/ksp/ksp_termination_criteria.rs"
YEN = CORE + "/src/algorithm/search/ksp/yens_algorithm.rs"
sim = KaniUnit("c13_sim", CORE,
               contracts=[dict(file=SIM, fn="RouteSimilarityFunction::is_similar", anchor=r"pub fn is_similar\(&self, similarity: f64\) -> bool",
                               attrs=["#[cfg_attr(kani, kani::ensures(|r: &bool| verif_c13_sim::is_similar_post(self, similarity, *r)))]"])],
               modules=[dict(file=SIM, src="c13_similarity.rs")],
               harnesses=[H("c13_is_similar_contract", "complete", "is_similar over the three variants x every f64 similarity/threshold: AcceptAll => false; thresholds => similarity >= threshold", timeout=120),
                          H("c13_accept_all_dominates", "complete", "AcceptAll rejects no candidate that any threshold accepts", timeout=120)])
term = KaniUnit("c13_term", CORE, modules=[dict(file=TERM, src="c13_termination.rs")],
                harnesses=[H("c13_ksp_terminate_search", "complete", "KspTerminationCriteria::terminate_search over all k, all solution sizes, all variants (Factor: factor <= 2^16, size <= 2^32 so the product fits): fires only at solution_size == k; Exact iff", timeout=120)])
yen = KaniUnit("c13_yen", CORE,
               exprs=[dict(file=YEN, name="c13_yen_spur_range", params="len: usize", ret="std::ops::Range<usize>",
                           anchor=r"for spur_idx in (?P<expr>0\.\.prev_accepted_path\.len\(\) - 2) \{",
                           subst=[("prev_accepted_path.len()", "len")])],
               modules=[dict(file=CORE + "/src/algorithm/search/search_instance.rs", src="world.rs"), dict(file=YEN, src="c13_yen.rs")],
               harnesses=[H("c13_yen_spur_range_no_underflow", "complete", "yens_algorithm::run: `0..prev_accepted_path.len() - 2` does not underflow for any stored route (len >= 1)", timeout=120)])
yen.native_witnesses = ['c13_wit_yen_one_edge_route']
UNITS = [sim, term, yen]
EXPLANATION = ("the k-shortest-path drivers themselves are outside both back ends (itertools pipelines, repeated calls of the search driver); "
               "decided here: the similarity decision and the stop criterion (complete over their domains) and expression-level call-site obligations in the drivers")
NOT_DECIDED = ("validity, distinctness, count and termination of the drivers' output on any graph; route_contains_loop, cos_similarity, "
               "reorient_reverse_route (itertools; CBMC cannot carry HashMap/HashSet keys) are not under contract")
