from driver import KaniUnit, VerusUnit, Harness as H
ID = "C10"
LEVEL = "proof"
CORE = "routee-compass-core"
TM = CORE + "/src/model/termination/termination_model.rs"
tm = KaniUnit("c10_tm", CORE, modules=[dict(file=TM, src="c10_termination.rs")], harnesses=[
    H("c10_iterations_limit", "complete", "IterationsLimit, all u64 limits/iterations (< MAX)/sizes: stop iff iteration+1 > limit; test()==Err(QueryTerminated) iff stop; explanation iff stop", timeout=120),
    H("c10_solution_size_limit", "complete", "SolutionSizeLimit, all usize: stop iff size > limit; test()==Err(QueryTerminated) iff stop", timeout=120),
    H("c10_runtime_limit", "complete", "QueryRuntimeLimit, all frequencies and iterations, symbolic clock (u8 frequency, u16 iteration/seconds): no panic incl. frequency 0; unscheduled iteration never stops; scheduled => stop iff elapsed > limit", timeout=120),
    H("c10_combined_one", "bounded", "Combined{Iterations}: same answer as its member", bound="one leaf member, u8 values", timeout=100),
])
al = VerusUnit('al_astar', 'al_astar', rlimit=60)
yr = VerusUnit("c13_yen_run", "c13_yen_run", rlimit=60)
svia = VerusUnit("c13_single_via", "c13_single_via", rlimit=60)
tm.native_witnesses = ["c10_wit_runtime_limit_is_a_duration"]
cb = VerusUnit("c10_combined", "c10_combined", rlimit=30, paired_kani=(tm, []))
bw = KaniUnit("c10_builder_wit", "routee-compass", modules=[dict(file="routee-compass/src/app/compass/config/termination_model_builder.rs", src="c10_builder_wit.rs")], harnesses=[])
bw.native_witnesses = ["c10_wit_configured_limits_are_the_limits_in_force"]
UNITS = [tm, cb, al, yr, svia, bw]
EXPLANATION = "TerminationModel::terminate_search for EVERY model (unit c10_combined, Verus, recursion through Vec<TerminationModel> with termination proved): whenever a size or iteration member at any depth of a Combined model is over its limit the model fires, a model without runtime members fires only then and never fails; lemmas: an iteration / size member anywhere stops the search at its limit; termination predicate and its error discipline under contract on the real code (Kani, complete over the integer domains); the search loop's use of it is carried by the Verus unit AL"
NOT_DECIDED = "wall-clock kind inside a running search (clock assumed); the limits inside the sub-searches are those of run_a_star (same TerminationModel handed through); decided for the drivers: an error of a sub-search (a terminated one in particular) ends the query -- single-via: both searches are `?`-propagated (Verus: the driver returns Ok only if both returned Ok); Yen: ghost log of spur outcomes (unit c13_yen_run)"
ASSUMPTIONS = ["Instant::now replaced by a symbolic clock (stub)", "alloc::fmt::format stubbed: error text is not checked, only the error variant"]
