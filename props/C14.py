from driver import KaniUnit, VerusUnit, Harness as H
ID = "C14"
LEVEL = "proof"
UNITS = [VerusUnit("c14_interp", "c14_interp", rlimit=60), VerusUnit("c14_sgmodel", "c14_sgmodel", rlimit=60)]
EXPLANATION = ("find_nearest_index (unbounded, incl. termination), Interp1D/2D/3D::linear and Interpolator::validate_inputs extracted verbatim and verified over the reals: the cell found brackets the point, "
               "the result is the multilinear form of the surrounding grid values and lies between the smallest and largest of them, grid points reproduce the stored value (1-D), neighbouring cells agree on their "
               "common grid line (continuity lemma), and a point outside the grid is rejected; "
               "model level (unit c14_sgmodel, verbatim linspace / InterpolationSpeedGradeModel::new / predict / Interpolator::interpolate): the grid axes are the requested linear grids, every node holds the underlying "
               "record's rate at that node per unit of the RATE unit's own distance (grid_faithful), predict never fails for a 2-D grid: it converts the inputs to the model's units, clamps them to the grid bounds "
               "(outside = nearest boundary) and returns the bilinear form of the cell holding that point, hence a value between that cell's smallest and largest node; at a node the value is the node's (lemma)")
NOT_DECIDED = ("InterpND (ndarray) and its agreement with 1D/2D/3D; Interp2D::new / validate (iterator pipelines; assumed to keep its arguments); the smartcore model's own numbers and the loader; "
               "rounding in f64 (A-REAL); one-point grids (Interp*::validate accepts them; the property quantifies over bin counts >= 2)")
ASSUMPTIONS = ["A-REAL", "Iterator::position as assumed contract", "grid axes strictly increasing with >= 2 points (precondition, established by Interp*::validate)"]
