from driver import KaniUnit, VerusUnit, Harness as H
ID = "C14"
LEVEL = "proof"
UNITS = [VerusUnit("c14_interp", "c14_interp", rlimit=60)]
EXPLANATION = ("find_nearest_index (unbounded, incl. termination), Interp1D/2D/3D::linear and Interpolator::validate_inputs extracted verbatim and verified over the reals: the cell found brackets the point, "
               "the result is the multilinear form of the surrounding grid values and lies between the smallest and largest of them, grid points reproduce the stored value (1-D), neighbouring cells agree on their "
               "common grid line (continuity lemma), and a point outside the grid is rejected")
NOT_DECIDED = ("InterpND (ndarray) and its agreement with 1D/2D/3D; InterpolationSpeedGradeModel (grid precomputation at unit distance, clamping of inputs); agreement of the precomputed grid with the underlying smartcore model; "
               "rounding in f64 (A-REAL); one-point grids (Interp*::validate accepts them; the property quantifies over bin counts >= 2)")
ASSUMPTIONS = ["A-REAL", "Iterator::position as assumed contract", "grid axes strictly increasing with >= 2 points (precondition, established by Interp*::validate)"]
