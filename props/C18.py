from driver import KaniUnit, VerusUnit, Harness as H
ID = "C18"
LEVEL = "other"
UNITS = [VerusUnit("c18_scc", "c18_scc", rlimit=60), VerusUnit("c11_container", "c11_container", rlimit=60, clauses=r"r\.seq\(\)")]
EXPLANATION = ("the adjacency the analysis walks: CompactOrderedHashMap::keys (unit c11_container, verbatim; behind Graph::out_edges / in_edges) yields every key of an adjacency map exactly once, slot i at position i, at every size; the four functions of scc.rs extracted verbatim and verified by Verus for every graph: each (reverse_)depth_first_search call only grows the visited set, extends the stack by exactly the newly "
               "visited vertices (each once) and leaves every successor of a newly visited vertex visited; all_strongly_connected_componenets returns a PARTITION of the vertex ids (every id in exactly one component, once); "
               "largest_strongly_connected_component returns one of the components and none is longer. NOT decided: that the classes are the strongly connected components (mutual reachability / maximality: the "
               "finishing-order argument of the two-pass algorithm), termination of the recursion, recursion depth")
NOT_DECIDED = "mutual reachability and maximality of the classes (finishing-order argument); termination; stack depth on long chains"
ASSUMPTIONS = ["Graph accessors (out_edges, in_edges, src/dst_vertex_id, vertex_ids) as assumed contracts over an abstract graph [C15.2]", "derived Hash/Eq of VertexId obey the hash-key model"]
