from driver import KaniUnit, VerusUnit, Harness as H
ID = "C07"
LEVEL = "proof"
CORE = "routee-compass-core"
COST = CORE + "/src/model/unit/cost.rs"

cost_unit = KaniUnit(
    "c07_cost", CORE,
    contracts=[
        dict(file=COST, fn="Cost::enforce_strictly_positive",
             anchor=r"pub fn enforce_strictly_positive\(cost: Cost\) -> Cost",
             attrs=["#[cfg_attr(kani, kani::requires(verif_c07_cost::esp_pre(&cost)))]",
                    "#[cfg_attr(kani, kani::ensures(|r: &Cost| verif_c07_cost::esp_post(&cost, r)))]"]),
        dict(file=COST, fn="Cost::enforce_non_negative",
             anchor=r"pub fn enforce_non_negative\(cost: Cost\) -> Cost",
             attrs=["#[cfg_attr(kani, kani::requires(verif_c07_cost::esp_pre(&cost)))]",
                    "#[cfg_attr(kani, kani::ensures(|r: &Cost| verif_c07_cost::enn_post(&cost, r)))]"]),
    ],
    modules=[dict(file=COST, src="c07_cost.rs")],
    harnesses=[
        H("c07_esp_contract", "complete", "enforce_strictly_positive: r>0; identity on >0; MIN_COST on <=0; finite in => finite out; all non-NaN f64"),
        H("c07_enn_contract", "complete", "enforce_non_negative: r>=0; identity on >=0; 0 on <0; all non-NaN f64"),
        H("c07_min_cost_const", "complete", "MIN_COST is a finite strictly positive constant"),
    ])

CM = CORE + "/src/model/cost/cost_model.rs"
cm_unit = KaniUnit(
    "c07_cm", CORE,
    modules=[dict(file=CM, src="c07_cost_model.rs")],
    harnesses=[
        H("c07_map_value", "bounded", "VehicleCostRate::map_value == the documented definition (bit-exact), finite in => finite out", bound="Combined nesting depth 1, <= 2 members; |x|,|factor|,|offset| <= 1e6"),
        H("c07_network_rate", "bounded", "NetworkCostRate: edge lookup only for traversal, edge-pair lookup only for access, missing key -> 0, Combined sums", bound="lookup tables of 1 entry, Combined of 2"),
        H("c07_traversal_cost_sum", "bounded", "CostModel::traversal_cost (Sum) == floor(sum_i w_i*rate_i(delta_i) + per-edge surcharge) > 0, finite; zero-weight feature ignored", bound="1..=2 features, leaf rates, all magnitudes <= 1e6", timeout=1500),
        H("c07_access_cost_and_estimate_sum", "bounded", "CostModel::access_cost (Sum) == floored weighted sum incl. per-turn surcharge; cost_estimate == vehicle cost clipped at 0, finite", bound="1..=2 features, leaf rates, all magnitudes <= 1e6", timeout=1500),
        H("c07_traversal_cost_mul", "bounded", "CostModel::traversal_cost / cost_estimate (Mul): floored product, > 0 / >= 0, finite", bound="2 features, leaf rates, magnitudes <= 1e6, finite product", timeout=1500),
        H("c07_short_state_is_err", "bounded", "state vector shorter than the model => Err, no panic", bound="2 features"),
    ])
tw = KaniUnit("c07_turn_wit", CORE, modules=[dict(file=CORE + "/src/algorithm/search/search_instance.rs", src="world.rs"), dict(file=CORE + "/src/algorithm/search/edge_traversal.rs", src="c07_turn_surcharge_wit.rs")], harnesses=[])
tw.native_witnesses = ["c07_wit_turn_surcharge_is_part_of_the_charged_cost"]
vm_unit = VerusUnit('c07_costmodel', 'c07_costmodel', rlimit=30, paired_kani=(tw, []))
rw = KaniUnit("c07_rate_wit", CORE, modules=[dict(file=CORE + "/src/model/cost/vehicle/vehicle_cost_rate.rs", src="c07_rate_wit.rs")], harnesses=[])
rw.native_witnesses = ["c07_wit_combined_rate_applies_members_in_order"]
rate = VerusUnit("c07_rate", "c07_rate", rlimit=30, paired_kani=(rw, []))
ow = KaniUnit("c07_cost_ops_wit", CORE, modules=[dict(file=CORE + "/src/model/cost/cost_ops.rs", src="c07_cost_ops_wit.rs")], harnesses=[])
ow.native_witnesses = ["c07_wit_cost_is_weight_times_rated_state_change"]
co = VerusUnit("c07_cost_ops", "c07_cost_ops", rlimit=30, paired_kani=(ow, []))
cb = VerusUnit("c02_cost_build", "c02_cost_build", rlimit=30)
nr = VerusUnit("c07_network_rate", "c07_network_rate", rlimit=30, paired_kani=(ow, []))
UNITS = [cost_unit, vm_unit, co, cb, rate, nr, rw, ow, tw]
EXPLANATION = ("contracts on the cost floor / clip functions (all f64, Kani) and on the cost model and the per-edge cost split (Verus, reals): total = floor(vehicle + network) > 0, estimate = clip(vehicle) >= 0, access + traversal share = the floored total; "
               "WHAT the aggregated costs are (unit c07_cost_ops, Verus on the verbatim cost_ops::calculate_vehicle_costs / calculate_network_traversal_costs / calculate_network_access_costs and CostAggregation::agg_iter, any number of features): "
               "the aggregate -- SUM, or product under mul, nothing for no feature -- over the features in order of weight x RATED CHANGE OF STATE in the feature's slot (vehicle), weight x the surcharge its network rate lists for the edge (traversal), "
               "weight (1 when it has none) x the surcharge listed for the pair of edges (access); a slot outside a vector or a failing lookup fails the whole cost, never a skipped feature; lemma: the sum is linear in each weight (a zero weight contributes nothing); "
               "the closure of each calculator is its verbatim body CHECKED against the annotated term, the lazy iterator it feeds is an opaque iterator over a ghost sequence; VehicleCostRate::map_value for EVERY rate (unit c07_rate); "
               "the surcharges (unit c07_network_rate, Verus on the verbatim NetworkCostRate::traversal_cost / access_cost, every rate, recursion with termination): a per-edge table charges its row for the edge on TRAVERSAL and nothing on access, a per-pair table charges its row for (previous edge, next edge) on ACCESS and nothing on traversal, a missing row charges nothing, a combined rate charges the SUM of its members, and the lookups never fail; "
               "CostModel::new (unit c02_cost_build): slot i of the cost model holds the weight and rates of the feature at slot i of the state model")
NOT_DECIDED = "f64 rounding (A-REAL): e.g. access + (total - access) can round to 0 for extreme ratios"
