from driver import KaniUnit, VerusUnit, Harness as H
ID = "C07"
LEVEL = "proof"
CORE = "routee-compass-core"
COST = CORE + "/src/model/unit/cost.rs"

cost_unit = KaniUnit(
    "c07_cost", CORE,
    contracts=[
        dict(file=COST, fn="Cost::enforce_strictly_positive",
             anchor=r"pub fn enforce_strictly_positive\(cost: Cost\) -> Cost",
             attrs=["#[cfg_attr(kani, kani::requires(verif_c07_cost::esp_pre(&cost)))]",
                    "#[cfg_attr(kani, kani::ensures(|r: &Cost| verif_c07_cost::esp_post(&cost, r)))]"]),
        dict(file=COST, fn="Cost::enforce_non_negative",
             anchor=r"pub fn enforce_non_negative\(cost: Cost\) -> Cost",
             attrs=["#[cfg_attr(kani, kani::requires(verif_c07_cost::esp_pre(&cost)))]",
                    "#[cfg_attr(kani, kani::ensures(|r: &Cost| verif_c07_cost::enn_post(&cost, r)))]"]),
    ],
    modules=[dict(file=COST, src="c07_cost.rs")],
    harnesses=[
        H("c07_esp_contract", "complete", "enforce_strictly_positive: r>0; identity on >0; MIN_COST on <=0; finite in => finite out; all non-NaN f64"),
        H("c07_enn_contract", "complete", "enforce_non_negative: r>=0; identity on >=0; 0 on <0; all non-NaN f64"),
        H("c07_min_cost_const", "complete", "MIN_COST is a finite strictly positive constant"),
    ])

UNITS = [cost_unit]
EXPLANATION = "contracts on the cost floor / clip functions (all f64), the cost model and the edge traversal split"
NOT_DECIDED = "CostModel::new beyond two features"
