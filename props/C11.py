from driver import KaniUnit, VerusUnit, Harness as H
ID = "C11"
LEVEL = "proof"
CORE = "routee-compass-core"
F = CORE + "/src/util/compact_ordered_hash_map.rs"
k_unit = KaniUnit("c11_k", CORE, modules=[dict(file=F, src="c11_container.rs")],
                  harnesses=[])  # c11_small_sequences (symbolic sequences <= 4 over 2-bit keys) exceeds 15 min in CBMC: not registered
k_unit.native_witnesses = ["c11_wit_seven_keys", "c11_wit_new_unique"]
v_unit = VerusUnit("c11_container", "c11_container", rlimit=60, paired_kani=(k_unit, []))
sm = VerusUnit('c03_statemodel', 'c03_statemodel', rlimit=60)
UNITS = [v_unit, sm, k_unit]
EXPLANATION = ("CompactOrderedHashMap::{empty,len,is_empty,contains_key,get,get_index,insert} extracted verbatim and verified by Verus at every size "
               "against an abstract (slot map, value map) view with a whole-view postcondition for insert; representation invariant: slots < len, pairwise distinct")
NOT_DECIDED = ("get_pair / keys / iter / to_vec / new on the HashMap-backed representation (sizes >= 5) are only exercised by concrete witnesses "
               "(Verus rejects their iterator-adapter text, CBMC cannot carry symbolic HashMap keys); StateModel on top of the container; collect_features")
ASSUMPTIONS = ["R6: key and value types instantiated at u64 (Eq/Hash/Clone laws of the real key types String/EdgeId assumed)",
               "assumed contract of std HashMap::from([(K,V); N]) (inserts the pairs in order)"]
