from driver import KaniUnit, VerusUnit, Harness as H
ID = "C11"
LEVEL = "proof"
CORE = "routee-compass-core"
F = CORE + "/src/util/compact_ordered_hash_map.rs"
k_unit = KaniUnit("c11_k", CORE, modules=[dict(file=F, src="c11_container.rs")],
                  harnesses=[])  # c11_small_sequences (symbolic sequences <= 4 over 2-bit keys) exceeds 15 min in CBMC: not registered
k_unit.native_witnesses = ["c11_wit_seven_keys", "c11_wit_new_unique", "c11_wit_collect_is_successive_insertion"]
v_unit = VerusUnit("c11_container", "c11_container", rlimit=60, paired_kani=(k_unit, []))
sm = VerusUnit('c03_statemodel', 'c03_statemodel', rlimit=60)
ew = KaniUnit("c11_extend_wit", CORE, modules=[dict(file=CORE + "/src/model/state/state_model.rs", src="c11_extend_wit.rs")], harnesses=[])
ew.native_witnesses = ["c11_wit_extend_overrides_in_place", "c11_wit_extend_by_nothing_is_identity"]
ex = VerusUnit("c11_extend", "c11_extend", rlimit=30, paired_kani=(ew, []))
cw = KaniUnit("c11_collect_wit", "routee-compass", modules=[dict(file="routee-compass/src/app/search/search_app_ops.rs", src="c11_collect_wit.rs")], harnesses=[])
cw.native_witnesses = ["c11_wit_query_declarations_come_after_the_models_features"]
cd = KaniUnit("c11_codec", CORE, modules=[dict(file=CORE + "/src/model/state/custom_feature_format.rs", src="c11_codec.rs")], harnesses=[
    H("c11_codec_f64_roundtrip", "complete", "CustomFeatureFormat::FloatingPoint: decode_f64(encode_f64(x)) == x for every f64 that is not NaN", timeout=120),
    H("c11_codec_i64_roundtrip", "complete", "CustomFeatureFormat::SignedInteger: decode_i64(encode_i64(x)) == x for every |x| <= 2^53 (the integers an f64 state variable holds exactly)", timeout=200),
    H("c11_codec_u64_roundtrip", "complete", "CustomFeatureFormat::UnsignedInteger: decode_u64(encode_u64(x)) == x for every x <= 2^53", timeout=200),
    H("c11_codec_bool_roundtrip", "complete", "CustomFeatureFormat::Boolean: decode_bool(encode_bool(b)) == b, stored as 0 or 1", timeout=120)])
cd.native_witnesses = ["c11_wit_codecs_refuse_the_wrong_kind"]
ins = VerusUnit("c11_instance", "c11_instance", rlimit=30)
ft = VerusUnit("c11_feature", "c11_feature", rlimit=30)
UNITS = [v_unit, sm, ex, ins, ft, k_unit, ew, cw, cd]
EXPLANATION = ("CompactOrderedHashMap::{empty,len,is_empty,contains_key,get,get_index,get_pair,insert} and the iterator's next extracted verbatim and verified by Verus at every size "
               "against an abstract (slot map, value map) view with a whole-view postcondition for insert; representation invariant: slots < len, pairwise distinct; "
               "'the slots are 0..n-1 with none shared or skipped' (pigeonhole lemma, proved by induction): with the invariant EVERY slot below len is owned by a key; "
               "'iteration by ascending index': get_pair(i) hands out THE key that owns slot i with its current value, the iterator's next hands out slot index and moves on, and returns None exactly at len -- so iteration yields all len entries, in slot order, none twice; "
               "StateModel::extend (verbatim, Verus, any number of entries): the per-query model is the configured container with every declared (name, feature) inserted in order -- an existing name keeps its slot "
               "and takes the declared feature, new names are appended; refused exactly when a declaration meets a same-named feature that differs under StateFeature's ==; StateModel accessors: frame (unit c03_statemodel); StateFeature::get_initial / StateModel::initial_state (unit c11_feature, verbatim): the initial state has exactly n entries, entry i holding the DECLARED initial value of the feature at slot i, for every kind; an initial value that cannot be encoded is an error; "
               "SearchApp::build_search_instance (verbatim, Verus, callees through deterministic contracts): the per-query state model IS the configured model extended by the features collected for this query, and the cost model "
               "and the frontier model are built against THAT model -- the one the search instance carries -- never the configured one (the same unit carries SearchApp::run and its two oriented variants: see C01)")
NOT_DECIDED = ("keys / to_vec / new / into_iter on the HashMap-backed representation (sizes >= 5) are only exercised by concrete witnesses "
               "(Verus rejects their iterator-adapter text, CBMC cannot carry symbolic HashMap keys); StateModel::new / iter (iterator adapters; witnesses); FromIterator (witness); the clone pipeline at the head of extend (assumed equal container; witness); collect_features (HashMap pipelines: witness only)")
ASSUMPTIONS = ["HashMap::iter().find(p) returns the first visited entry satisfying p and None only if none does (helper verif_find_slot)", "R6: key and value types instantiated at u64 (Eq/Hash/Clone laws of the real key types String/EdgeId assumed)",
               "assumed contract of std HashMap::from([(K,V); N]) (inserts the pairs in order)"]
