from driver import KaniUnit, VerusUnit, Harness as H
ID = "C08"
LEVEL = "proof"
PT = "routee-compass-powertrain"
soc = KaniUnit("c08_soc", PT, modules=[dict(file=PT + "/src/routee/vehicle/vehicle_ops.rs", src="c08_soc.rs")],
               harnesses=[H("c08_soc_in_range", "complete", "soc_from_battery_and_delta / as_soc_percent on the real f64 code, all finite inputs, capacity > 0: result in [0,100], never NaN; empty => 0", timeout=120)])
vu = VerusUnit("c08_vehicle", "c08_vehicle", rlimit=60)
em = VerusUnit("c08_energy_model", "c08_energy_model", rlimit=30)
UNITS = [vu, em, soc]
EXPLANATION = ("EnergyTraversalModel::traverse_edge / estimate_traversal / get_grade (unit c08_energy_model, verbatim): the vehicle is asked to consume energy for THIS edge -- its length in the service's distance unit, its grade from the grade table (0 without one), and speed = length in the speed unit's own distance unit / the time the time model added in the speed unit's own time unit; "
               "vehicle_ops, PredictionModelRecord::predict (with and without cache), get_phev_energy, ICE/BEV/PHEV::consume_energy, ICE/BEV::best_case_energy, Energy::create extracted verbatim and "
               "verified over the reals: energy = rate x adjustment x converted distance in the rate's energy unit; soc' = clamp(soc - 100*delta/capacity) in [0,100]; PHEV switch on entry soc; an ICE vehicle accumulates the predicted energy of the edge in its liquid-fuel slot; frame of the state vector")
NOT_DECIDED = ("update_from_query (serde_json) incl. rejection of a starting charge outside 0..100; the numeric predictions of the smartcore / interpolated models; "
               "best_case_energy_state's unit handling")
ASSUMPTIONS = ["A-REAL for the Verus unit (the Kani harness is bit-precise)", "StateModel accessors, prediction model, FloatCachePolicy as assumed contracts", "f64::clamp, &str->String as assumed contracts"]
