from driver import KaniUnit, VerusUnit, Harness as H
ID = "C08"
LEVEL = "proof"
PT = "routee-compass-powertrain"
soc = KaniUnit("c08_soc", PT, modules=[dict(file=PT + "/src/routee/vehicle/vehicle_ops.rs", src="c08_soc.rs")],
               harnesses=[H("c08_soc_in_range", "complete", "soc_from_battery_and_delta / as_soc_percent on the real f64 code, all finite inputs, capacity > 0: result in [0,100], never NaN; empty => 0", timeout=120)])
bw = KaniUnit("c08_best_case_wit", PT, modules=[dict(file=PT + "/src/routee/vehicle/default/bev.rs", src="c08_best_case_wit.rs")], harnesses=[])
bw.native_witnesses = ["c08_wit_best_case_energy_state_is_ideal_rate_times_distance_in_the_state_units", "c08_wit_state_of_charge_starts_at_the_querys_value"]
vu = VerusUnit("c08_vehicle", "c08_vehicle", rlimit=60, paired_kani=(bw, []))
em = VerusUnit("c08_energy_model", "c08_energy_model", rlimit=30)
UNITS = [vu, em, soc, bw]
EXPLANATION = ("EnergyTraversalModel::traverse_edge / estimate_traversal / get_grade (unit c08_energy_model, verbatim): the vehicle is asked to consume energy for THIS edge -- its length in the service's distance unit, its grade from the grade table (0 without one), and speed = length in the speed unit's own distance unit / the time the time model added in the speed unit's own time unit; "
               "vehicle_ops, PredictionModelRecord::predict (with and without cache), get_phev_energy, ICE/BEV/PHEV::consume_energy, best_case_energy and best_case_energy_state, Energy::create extracted verbatim and "
               "verified over the reals: energy = rate x adjustment x converted distance in the rate's energy unit; soc' = clamp(soc - 100*delta/capacity) in [0,100]; PHEV switch on entry soc; an ICE vehicle accumulates the predicted energy of the edge in its liquid-fuel slot; the best-case state used to order the search grows by the ideal rate x distance converted from the MODEL's energy unit to the slot's, the state of charge by the same energy in the battery's unit (failed on the pinned code for a battery configured in another unit than the model's: fixed in /repo f39d7d0); frame of the state vector")
NOT_DECIDED = ("update_from_query (serde_json) beyond its witness (legal starting charges become the initial state of charge, charges outside 0..100 and non-numeric ones are rejected, for BEV and PHEV); the numeric predictions of the smartcore / interpolated models; "
               "the numeric value of the ideal rate")
ASSUMPTIONS = ["A-REAL for the Verus unit (the Kani harness is bit-precise)", "StateModel accessors, prediction model, FloatCachePolicy as assumed contracts", "f64::clamp, &str->String as assumed contracts"]
