from driver import KaniUnit, VerusUnit, Harness as H
ID = "C05"
LEVEL = "proof"
CORE = "routee-compass-core"
wit = KaniUnit("c05_wit", CORE, modules=[dict(file=CORE + "/src/algorithm/search/search_instance.rs", src="world.rs"),
                                          dict(file=CORE + "/src/algorithm/search/search_algorithm.rs", src="c01_wit.rs")], harnesses=[])
wit.native_witnesses = ["c05_wit_no_path_exactly_when_unreachable", "c02_wit_tree_labels_are_least_costs"]
al = VerusUnit("al_astar", "al_astar", rlimit=60, paired_kani=(wit, []))
dp = VerusUnit("c01_dispatch", "c01_dispatch", rlimit=60, paired_kani=(wit, []))
eo = VerusUnit("c01_edge_oriented", "c01_edge_oriented", rlimit=60, clauses=r"callers\.2", paired_kani=(wit, []))
UNITS = [al, dp, eo, wit]
EXPLANATION = ("'precisely those reachable', both directions: every vertex a permitted path reaches is labelled (lemma_reachable_is_labelled) AND every tree entry is reached from the origin by a path of permitted incident edges (invariant INC on the verbatim driver: an entry's edge is one of the incident edges of its parent; lemma_parents_reach_source: a chain of parent links leads from every entry to the origin; lemma_entry_is_reachable: that chain read backwards is a permitted path); run_a_star + advance_search under contract: 'no path' is produced only by an exhausted queue with a target, and then (invariant EXP) the "
               "labelled set is closed under every edge the frontier model permitted and does not contain the target; a returned tree contains the target; "
               "without a target the search returns only at queue exhaustion with the closed labelled set; "
               "the whole 'only if' argument as lemmas (induction on the path): with an exhausted queue every vertex that a permitted path from the source reaches is labelled, hence when 'no path' is reported NO permitted path from "
               "the source ends at the target (edge-local frontier models); SearchAlgorithm::run_vertex_oriented reports 'no path' only as run_a_star does (unit c01_dispatch); "
               "'each labelled with its least cost when edge costs do not depend on how the edge was reached': invariant BELL on the verbatim run_a_star (Bellman's condition on every incident edge of a vertex that was expanded and is not "
               "queued again) gives postcondition least_post for a destination-less search, and lemma_tree_route_least (via lemma_label_le_path and lemma_chain_cost_le_label, both by induction) concludes that the route the tree stores for a "
               "vertex costs no more than ANY permitted path from the origin to it (hypotheses: cost_local -- perform_edge_traversal charges one number per edge -- and an edge-local frontier model)")
NOT_DECIDED = "frontier models whose verdict depends on the state or the previous edge (turn restrictions): the closure lemma is stated for edge-local models; wall-clock needed to exhaust the queue"
