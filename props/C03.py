from driver import KaniUnit, VerusUnit, Harness as H
ID = "C03"
LEVEL = "proof"
CORE = "routee-compass-core"
TD = CORE + "/src/model/access/default/turn_delays/"
heading = KaniUnit("c03_heading", CORE,
    contracts=[dict(file=TD + "edge_heading.rs", fn="EdgeHeading::bearing_to_destination",
                    anchor=r"pub fn bearing_to_destination\(&self, destination: &EdgeHeading\) -> i16",
                    attrs=["#[cfg_attr(kani, kani::requires(verif_c03_heading::heading_ok(self) && verif_c03_heading::heading_ok(destination)))]",
                           "#[cfg_attr(kani, kani::ensures(|r: &i16| verif_c03_heading::bearing_post(self, destination, *r)))]"])],
    modules=[dict(file=TD + "edge_heading.rs", src="c03_heading.rs")],
    harnesses=[H("c03_bearing_contract", "complete", "bearing_to_destination for all i16 headings in 0..=360 (Some/None departure): no overflow, result in -180..=180, congruent to dest.start - self.end mod 360", timeout=120),
               H("c03_end_heading_default", "complete", "end_heading falls back to the arrival heading; new() stores both", timeout=120)])
turn = KaniUnit("c03_turn", CORE, modules=[dict(file=TD + "turn.rs", src="c03_turn.rs")],
    harnesses=[H("c03_turn_from_angle", "complete", "Turn::from_angle for every i16: the eight classes are the documented intervals, Err outside -180..=180", timeout=120)])
smw = KaniUnit("c03_smw", CORE, modules=[dict(file=CORE + "/src/model/state/state_model.rs", src="c03_statemodel_wit.rs")], harnesses=[])
smw.native_witnesses = ["c03_wit_distance_accumulates_the_sum_across_units", "c03_wit_energy_and_time_accumulate_the_sum_across_units"]
sm = VerusUnit("c03_statemodel", "c03_statemodel", rlimit=60, paired_kani=(smw, []))
cm = VerusUnit("c07_costmodel", "c07_costmodel", rlimit=30)
kw = KaniUnit("c01_wit", CORE, modules=[dict(file=CORE + "/src/algorithm/search/search_instance.rs", src="world.rs"),
                                       dict(file=CORE + "/src/algorithm/search/search_algorithm.rs", src="c01_wit.rs")], harnesses=[])
kw.native_witnesses = ["c01_wit_single_via_routes_are_walks", "c03_wit_ksp_routes_report_their_own_retraversal", "c01_wit_ksp_edge_oriented_routes_are_walks"]
sv = VerusUnit("c13_single_via", "c13_single_via", rlimit=60, paired_kani=(kw, []))
yr = VerusUnit("c13_yen_run", "c13_yen_run", rlimit=60, paired_kani=(kw, []))
sp = VerusUnit("c02_speed", "c02_speed", rlimit=30)
ro = VerusUnit("c03_route_output", "c03_route_output", rlimit=30)
td = VerusUnit("c03_turn_delay", "c03_turn_delay", rlimit=30)
ow = KaniUnit("c07_cost_ops_wit", CORE, modules=[dict(file=CORE + "/src/model/cost/cost_ops.rs", src="c07_cost_ops_wit.rs")], harnesses=[])
ow.native_witnesses = ["c07_wit_cost_is_weight_times_rated_state_change"]
co = VerusUnit("c07_cost_ops", "c07_cost_ops", rlimit=30, paired_kani=(ow, []))
ke = VerusUnit("c01_ksp_edge_oriented", "c01_ksp_edge_oriented", rlimit=60, paired_kani=(kw, []))
UNITS = [ke, heading, turn, sm, cm, sv, yr, sp, ro, td, co, smw, kw, ow]
EXPLANATION = ("turn classification kernels (complete over i16); StateModel get/set/add under contract (frame + `add` grows the slot by the increment converted to the feature's unit) and the accumulation lemma; "
               "per-edge state/cost split (EdgeTraversal::forward/reverse_traversal, Verus, see C07 units); the speed-table traversal model (unit c02_speed): an edge adds its length (converted) to the distance slot "
               "and length / its own table speed to the time slot, nothing else changes; the reverse half of a bidirectional route is re-traversed edge by edge in travel order, each edge after its TRUE predecessor "
               "and from the state that predecessor left (reorient_reverse_route, unit c13_single_via); every route of Yen's driver is `chained`: from its second edge on, each edge is the traversal of that edge after the edge actually before it, from the state that edge left (unit c13_yen_run; failed on the pinned code, fixed); the route summary (unit c03_route_output, verbatim construct_route_output): the `traversal_summary` of a route in the response is the serialisation of the state AFTER THE LAST EDGE of that very route under the instance's own state model, the path block is generated from the same route, and an empty route is an error, never a summary of something else; 'each edge's reported cost is the weighted, rated change of state on that edge' (unit c07_cost_ops, verbatim cost_ops): the vehicle cost is the aggregate over the features of weight x rate(next - prev) in the feature's slot; the turn-delay access model (unit c03_turn_delay, verbatim get_delay / get_headings / access_edge): accessing an edge from another adds to the time feature the delay the table lists for the class of the angle from the heading of the edge LEFT to the heading of the edge ENTERED, in the table's unit, and nothing else; a missing heading, an unclassifiable angle or a missing table row is an error, never a default delay")
NOT_DECIDED = "StateModel::serialize_state itself (serde_json; a deterministic serialisation) and the placement of the route object in the response (slice patterns over serde_json values); the energy traversal models' speed reconstruction; how the heading and delay tables are read from files"
ASSUMPTIONS = ["alloc::fmt::format stubbed on error paths"]
