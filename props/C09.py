from driver import KaniUnit, VerusUnit, Harness as H
ID = "C09"
MEM_CAP_GB = 4   # the f64 harnesses are small: 12 CBMC processes in parallel
LEVEL = "proof"
CORE = "routee-compass-core"
B = CORE + "/src/model/unit/builders.rs"

FAM = {  # family -> (value type, variants, physical size of one unit in SI base units or None)
    "DistanceUnit": ("Distance", ["Meters", "Kilometers", "Miles", "Inches", "Feet"], [1.0, 1000.0, 1609.344, 0.0254, 0.3048]),
    "TimeUnit": ("Time", ["Hours", "Minutes", "Seconds", "Milliseconds"], [3600.0, 60.0, 1.0, 0.001]),
    "SpeedUnit": ("Speed", ["KilometersPerHour", "MilesPerHour", "MetersPerSecond"], [1000.0 / 3600.0, 1609.344 / 3600.0, 1.0]),
    "EnergyUnit": ("Energy", ["GallonsGasoline", "GallonsDiesel", "KilowattHours"], None),
    "GradeUnit": ("Grade", ["Percent", "Decimal", "Millis"], [0.01, 1.0, 0.001]),
    "WeightUnit": ("Weight", ["Pounds", "Tons", "Kg"], [0.45359237, 907.18474, 1.0]),
}


def gen_module():
    o = ["#[cfg(kani)]", "mod verif_c09 {", "    use crate::model::unit::*;", "    use crate::model::unit::as_f64::AsF64;"]
    hs = []
    for fam, (val, vs, phys) in FAM.items():
        # symbolic unit chooser + physical size
        o.append("    fn any_%s() -> %s { match kani::any::<u8>() %% %d { %s } }" % (
            fam, fam, len(vs), ", ".join(("%d => %s::%s" % (i, fam, v)) if i < len(vs) - 1 else ("_ => %s::%s" % (fam, v)) for i, v in enumerate(vs))))
        if phys:
            o.append("    fn phys_%s(u: &%s) -> f64 { match u { %s } }" % (fam, fam, ", ".join("%s::%s => %r" % (fam, v, p) for v, p in zip(vs, phys))))
        # witness harness: every ordered pair, at the concrete magnitudes 1000 and -3 (replay witnesses for the Verus lemmas)
        o.append("    #[kani::proof]\n    fn c09_wit_%s() {" % fam.lower())
        o.append("        let (a, b) = (any_%s(), any_%s());" % (fam, fam))
        o.append("        let x: f64 = if kani::any() { 1000.0 } else { -3.0 };")
        o.append("        let r = a.convert(&%s::new(x), &b).as_f64();" % val)
        o.append("        let back = b.convert(&%s::new(r), &a).as_f64();" % val)
        o.append("        assert!((back - x).abs() <= 0.001 * x.abs(), \"round trip within 0.1 percent\");")
        o.append("        if std::mem::discriminant(&a) == std::mem::discriminant(&b) { assert!(r == x, \"identity for equal units\"); }")
        if phys:
            o.append("        let (pa, pb) = (phys_%s(&a), phys_%s(&b));" % (fam, fam))
            o.append("        assert!((r * pb - x * pa).abs() <= 0.001 * (x * pa).abs(), \"agrees with the physical factor within 0.1 percent\");")
        o.append("        kani::cover!(true);\n    }")
        hs.append(H("c09_wit_%s" % fam.lower(), "witness", "%s::convert on the real code: all ordered pairs at x in {1000, -3}: identity, round trip, physical factor" % fam, carries=False))
        # complete per-pair harnesses on the real f64 code (thorough tier)
        for a in vs:
            for b in vs:
                n = "c09_f64_%s_%s_%s" % (fam.lower(), a.lower(), b.lower())
                o.append("    #[kani::proof]\n    fn %s() {" % n)
                o.append("        let x: f64 = kani::any();")
                o.append("        kani::assume(x.is_finite() && x.abs() >= 1e-9 && x.abs() <= 1e12);")
                o.append("        let r = %s::%s.convert(&%s::new(x), &%s::%s).as_f64();" % (fam, a, val, fam, b))
                o.append("        let back = %s::%s.convert(&%s::new(r), &%s::%s).as_f64();" % (fam, b, val, fam, a))
                o.append("        assert!(r.is_finite() && (r > 0.0) == (x > 0.0), \"finite, sign preserved\");")
                o.append("        assert!((back - x).abs() <= 0.001 * x.abs(), \"f64 round trip within 0.1 percent\");")
                if a == b:
                    o.append("        assert!(r == x, \"identity bit for bit\");")
                o.append("        kani::cover!(true);\n    }")
                hs.append(H(n, "complete", "%s::%s -> %s on the real f64 code, 1e-9 <= |x| <= 1e12: finite, sign preserved, round trip within 0.1 %%" % (fam, a, b),
                            tier="thorough", timeout=240, optional=True, carries=False))
    # constructors: rejection of non-positive speed / distance / time on the real code, all unit combinations
    o.append("""    #[kani::proof]
    fn c09_create_time_rejects() {
        let (su, du, tu) = (any_SpeedUnit(), any_DistanceUnit(), any_TimeUnit());
        let s: f64 = kani::any();
        let d: f64 = kani::any();
        kani::assume(s.is_finite() && d.is_finite() && s.abs() <= 1e12 && d.abs() <= 1e12);
        let r = Time::create(&Speed::new(s), &su, &Distance::new(d), &du, &tu);
        if s <= 0.0 || d <= 0.0 { assert!(r.is_err(), "non-positive speed or distance is rejected"); }
        if let Ok(t) = r { assert!(t.as_f64() >= 0.0 && !t.as_f64().is_nan(), "a produced time is never negative or NaN"); }
        kani::cover!(true);
    }
    #[kani::proof]
    fn c09_create_speed_rejects() {
        let (tu, du, su) = (any_TimeUnit(), any_DistanceUnit(), any_SpeedUnit());
        let t: f64 = kani::any();
        let d: f64 = kani::any();
        kani::assume(t.is_finite() && d.is_finite() && t.abs() <= 1e12 && d.abs() <= 1e12);
        let r = Speed::create(&Time::new(t), &tu, &Distance::new(d), &du, &su);
        if t <= 0.0 { assert!(r.is_err(), "non-positive time is rejected"); }
        kani::cover!(true);
    }""")
    hs.append(H("c09_create_time_rejects", "complete", "Time::create on the real code, all unit triples, all finite |s|,|d| <= 1e12: s<=0 or d<=0 => Err; Ok time is >= 0 and not NaN", timeout=1500))
    hs.append(H("c09_create_speed_rejects", "complete", "Speed::create on the real code: t<=0 => Err", timeout=1500))
    o.append("}")
    return "\n".join(o) + "\n", hs


_text, _hs = gen_module()
kani_unit = KaniUnit("c09_f64", CORE, modules=[dict(file=B, text=_text)], harnesses=_hs)
verus_unit = VerusUnit("c09_units", "c09_units", rlimit=30, paired_kani=(kani_unit, [h.name for h in _hs if h.kind == "witness"]))
UNITS = [verus_unit, kani_unit]
EXPLANATION = ("every convert function, the three From impls and create_time/create_speed/create_energy are extracted verbatim from /repo "
               "and verified (Verus, reals) against spec tables generated from their own match arms; identity, linearity (additive + monotone + "
               "proportional), the 0.1 % round trip and the 0.1 % agreement with independently written physical definitions are lemmas over those tables; "
               "the same functions are checked bit-precisely on the real crate by Kani (rejection of non-positive inputs: quick; per-pair f64 round trip: thorough)")
NOT_DECIDED = "SpeedUnit::from((DistanceUnit, TimeUnit)) todo!() arms (no call site in the three crates)"
ASSUMPTIONS = ["A-REAL (Verus units): f64 arithmetic and comparison treated as real arithmetic (no rounding, overflow, NaN, signed zero); the Kani harnesses of this property are bit-precise",
               "R4 shims: the unit newtypes (derive_more + ordered_float wrappers) behave as their wrapped f64"]
