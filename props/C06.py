from driver import KaniUnit, VerusUnit, Harness as H
ID = "C06"
LEVEL = "other"
APP = "routee-compass"
OPS = APP + "/src/app/compass/compass_app_ops.rs"
CA = APP + "/src/app/compass/compass_app.rs"
mb = KaniUnit("c06_mb", APP, modules=[dict(file=OPS, src="c06_min_bin.rs")],
              harnesses=[H("c06_min_bin_contract", "bounded", "min_bin on the real code, bit-precise (supplement to the Verus proof of unit c06_balance, which is unbounded under A-REAL): Err iff empty; otherwise the index of a least total", bound="<= 3 bins, finite non-negative totals", timeout=150)])
wit = KaniUnit("c06_wit", APP, modules=[dict(file=CA, src="app_wit.rs")], harnesses=[])
wit.native_witnesses = ["c06_wit_one_response_per_query", "c12_wit_rejected_only_batches", "c06_wit_malformed_weight_estimate_does_not_fail_the_batch", "c06_wit_failing_child_of_an_expansion_does_not_take_its_siblings", "c17_wit_flatten_partial_expansion"]
cw = KaniUnit("c06_cache_wit", "routee-compass-core", modules=[dict(file="routee-compass-core/src/util/cache_policy/float_cache_policy.rs", src="c06_cache_wit.rs")], harnesses=[])
cw.native_witnesses = ["c06_wit_cache_keys_separate_different_inputs"]
rn = VerusUnit("c06_run", "c06_run", rlimit=30, paired_kani=(wit, []))
UNITS = [VerusUnit("c06_balance", "c06_balance", rlimit=60), VerusUnit("c06_output", "c06_output", rlimit=30), rn, VerusUnit("c08_vehicle", "c08_vehicle", rlimit=60), mb, wit, cw]
EXPLANATION = ("independence of the response multiset from the rayon SCHEDULE is NOT decided by a proof about threads (Kani has no threads, Verus has no model of rayon): it is reduced to an explicit assumption about rayon. Decided: CompassApp::run (unit c06_run, Verus on the verbatim function; the three rayon / itertools pipelines -- the input-plugin stage and the two batch runners -- are opaque helpers whose contracts ARE the assumption about rayon: every element processed exactly once, order kept): one response per query reaches the caller -- every rejected query's error response and, with responses kept in memory, one response per query that input processing made of the accepted ones -- and the response writer is asked to write EVERY response of the batch exactly once, rejected and run, under both persistence policies, with the run-time override of the policy honoured; the early return for a batch without runnable queries still returns and records the rejected ones;  apply_load_balancing_policy (Verus, any batch and "
               "parallelism) returns exactly `parallelism` bins that PARTITION the batch (every query in exactly one bin, input order kept inside a bin), empty batch => no bins, parallelism 0 => Err not panic; min_bin VERIFIED in the same unit (rule R-minby: the enumerate / min_by_key / map pipeline written as the loop it denotes, key expression verbatim): Err iff there are no bins, otherwise the index of a bin of least total, for any number of bins; "
               "apply_output_processing / run_single_query (Verus, any number of output plugins): one query always yields one response value; it is the initial output with the plugins applied in order, and the first plugin "
               "failure turns it into an error response packaged with the ORIGINAL request; cache transparency of PredictionModelRecord::predict is carried by C08; a native witness runs batches of 1..9 queries at parallelism 1..4 through the real CompassApp::run (thorough tier)")
NOT_DECIDED = "schedule / chunking / batch-order independence under rayon; isolation of failing queries inside run_batch_*; package_error (serde_json)"
ASSUMPTIONS = ["rayon (unit c06_run): par_chunks / par_iter with map + collect / unzip process every element exactly once and keep the order of the input -- stated as the contracts of three opaque helpers", "get_query_weight_estimate as an assumed contract in the Verus unit (any answer, including an error); OrderedFloat's order is the order of the reals (A-REAL)"]
