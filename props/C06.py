from driver import KaniUnit, VerusUnit, Harness as H
ID = "C06"
LEVEL = "other"
APP = "routee-compass"
OPS = APP + "/src/app/compass/compass_app_ops.rs"
CA = APP + "/src/app/compass/compass_app.rs"
mb = KaniUnit("c06_mb", APP, modules=[dict(file=OPS, src="c06_min_bin.rs")],
              harnesses=[H("c06_min_bin_contract", "bounded", "min_bin on the real code: Err iff empty; otherwise the index of a least total", bound="<= 3 bins, finite non-negative totals", timeout=150)])
wit = KaniUnit("c06_wit", APP, modules=[dict(file=CA, src="app_wit.rs")], harnesses=[])
wit.native_witnesses = ["c06_wit_one_response_per_query", "c12_wit_rejected_only_batches", "c06_wit_malformed_weight_estimate_does_not_fail_the_batch", "c06_wit_failing_child_of_an_expansion_does_not_take_its_siblings", "c17_wit_flatten_partial_expansion"]
UNITS = [VerusUnit("c06_balance", "c06_balance", rlimit=60), VerusUnit("c06_output", "c06_output", rlimit=30), VerusUnit("c08_vehicle", "c08_vehicle", rlimit=60), mb, wit]
EXPLANATION = ("the heart of C06 -- independence of the response multiset from the rayon schedule, from par_chunks chunking and from batch order; isolation of a failing query; the shared prediction cache -- is NOT decided: "
               "Kani has no threads, Verus has no model of rayon, and a contract on CompassApp::run would have to assume rayon's semantics, which is the property. Decided: apply_load_balancing_policy (Verus, any batch and "
               "parallelism) returns exactly `parallelism` bins that PARTITION the batch (every query in exactly one bin, input order kept inside a bin), empty batch => no bins, parallelism 0 => Err not panic; min_bin (Kani, bounded); "
               "apply_output_processing / run_single_query (Verus, any number of output plugins): one query always yields one response value; it is the initial output with the plugins applied in order, and the first plugin "
               "failure turns it into an error response packaged with the ORIGINAL request; cache transparency of PredictionModelRecord::predict is carried by C08; a native witness runs batches of 1..9 queries at parallelism 1..4 through the real CompassApp::run (thorough tier)")
NOT_DECIDED = "schedule / chunking / batch-order independence under rayon; isolation of failing queries inside run_batch_*; package_error (serde_json)"
ASSUMPTIONS = ["min_bin / get_query_weight_estimate as assumed contracts in the Verus unit (min_bin's is checked by Kani up to 3 bins)"]
