from driver import KaniUnit, VerusUnit, Harness as H
ID = "C15"
LEVEL = "other"
CORE = "routee-compass-core"
EL = CORE + "/src/model/network/edge_loader.rs"
alloc = KaniUnit("c15_alloc", CORE,
                 exprs=[dict(file=EL, name="c15_adj_len", params="c: &EdgeLoaderConfig", ret="usize", anchor=r"let mut adj: Vec<CompactOrderedHashMap<EdgeId, VertexId>> =\s*vec!\[CompactOrderedHashMap::empty\(\); (?P<expr>[^\]]+)\];", subst=[]),
                        dict(file=EL, name="c15_rev_len", params="c: &EdgeLoaderConfig", ret="usize", anchor=r"let mut rev: Vec<CompactOrderedHashMap<EdgeId, VertexId>> =\s*vec!\[CompactOrderedHashMap::empty\(\); (?P<expr>[^\]]+)\];", subst=[])],
                 modules=[dict(file=EL, src="c15_alloc.rs")],
                 harnesses=[H("c15_adjacency_sized_by_vertices", "complete", "EdgeLoader::try_from: both adjacency vectors are allocated with n_vertices slots (all usize)", timeout=120)])
lw = KaniUnit("c15_loader_wit", CORE, modules=[dict(file=CORE + "/src/model/network/graph_loader.rs", src="c15_loader_wit.rs")], harnesses=[])
lw.native_witnesses = ["c15_wit_loaded_network_is_the_listed_one", "c15_wit_edge_naming_a_vertex_beyond_the_vertex_list", "c15_wit_vertex_columns_in_any_order"]
bw = VerusUnit("c15_builder", "c15_builder", rlimit=30)
UNITS = [bw, VerusUnit("c15_graph", "c15_graph", rlimit=60, paired_kani=(lw, [])), VerusUnit("c11_container", "c11_container", rlimit=60), alloc, lw]
EXPLANATION = ("DefaultGraphBuilder::build (unit c15_builder, verbatim, glue): the graph is the one loaded from THE edge file and THE vertex file the configuration names, with ITS n_edges as the number of edges and ITS n_vertices as the number of vertices; EdgeLoader::try_from as a whole under contract (unit c15_graph, Verus on the verbatim function; `read_utils::from_csv` + row callback as ONE assumed helper that reads ANY rows and processes them in order as the verified callback does; progress bar dropped): a load that succeeds exposes, for EVERY listed edge, the edge in the out-list of its source AND in the in-list of its destination, both inside the vertex list -- the forward and the reverse view describe the same edge set (lemma_chain_complete, induction over the rows; FAILED on the pinned code: an edge naming a vertex outside the vertex list was stored in one view only -- fixed bd464b1); lemmas by induction over the rows (unit c15_graph): after all rows the out-list of a vertex holds exactly the listed edges that leave it, the in-list exactly those that enter it; file reading / parsing / decompression (csv, serde, flate2, std::fs) is outside both back ends: 'loaded == listed' is NOT decided. Decided (in-memory half): the per-row adjacency update of "
               "EdgeLoader::try_from (closure extracted by rule R5, Verus): out-list of the source gets edge->destination, in-list of the destination gets edge->source, nothing else changes, an endpoint beyond the vertex "
               "count is recorded as missing; Graph::{get_edge,get_vertex,src_vertex_id,dst_vertex_id,edge_triplet}: lookup by id is lookup by index, out of range => the matching NotFound error; "
               "the adjacency container at every size (C11 unit); allocation sizes of adj/rev")
NOT_DECIDED = "CSV/gzip reading, line counting (fs_utils), that ids equal row positions in the files, keys()/iteration order of the container at sizes >= 5 (witness only)"
ASSUMPTIONS = ["read_utils::from_csv calls the row callback once per row, in file order, before returning the rows (helper verif_from_csv_rows); Vec::into_boxed_slice keeps the elements; vec![x; n] yields n copies", "CompactOrderedHashMap::insert by its contract of unit c11_container", "Vec::get_mut / HashSet::insert as specified by vstd"]
