from driver import KaniUnit, VerusUnit, Harness as H
ID = "C16"
LEVEL = "other"
APP = "routee-compass"
EP = APP + "/src/plugin/input/default/edge_rtree/edge_rtree_input_plugin.rs"
wit = KaniUnit("c16_wit", APP, modules=[dict(file=EP, src="c16_edge_tolerance_wit.rs")], harnesses=[])
wit.native_witnesses = ["c16_wit_edge_tolerance_is_a_distance_on_the_ground", "c16_wit_tree_measure_and_tolerance_use_the_same_location", "c16_wit_inside_the_bounding_box_is_not_within_tolerance"]
em = VerusUnit("c16_edge_match", "c16_edge_match", rlimit=30, paired_kani=(wit, []))
vw = KaniUnit("c16_vertex_wit", APP, modules=[dict(file=APP + "/src/plugin/input/default/vertex_rtree/plugin.rs", src="c16_vertex_wit.rs")], harnesses=[])
vw.native_witnesses = ["c16_wit_vertex_tolerance_is_in_force_with_and_without_a_unit"]
pr = VerusUnit("c16_process", "c16_process", rlimit=30, paired_kani=(vw, []))
hw = KaniUnit("c16_haversine_wit", "routee-compass-core", modules=[dict(file="routee-compass-core/src/util/geo/haversine.rs", src="c16_haversine_wit.rs")], harnesses=[])
hw.native_witnesses = ["c16_wit_great_circle_distance_agrees_with_an_independent_formula"]
UNITS = [em, pr, wit, vw, hw]
EXPLANATION = ("The plugins' own logic, NOT the agreement of the r-tree with an exhaustive scan. Decided (Verus, verbatim `process` of BOTH map-matching plugins and VertexRTree::nearest_vertex, callees through their contracts): "
               "vertex plugin -- on success the origin (and, when the query has a destination coordinate, the destination) vertex written into the query is the tree's nearest vertex to THAT coordinate, it passed the tolerance check against THAT coordinate, "
               "and every other field of the query is as it was; a nearest vertex that fails the tolerance check, or an empty tree, is an error and never a match; edge plugin -- the origin / destination edge written into the query is what `search` returned for "
               "that coordinate with the QUERY's road classes and vehicle parameters and the plugin's tree, tolerance and restriction tables, every other field is as it was, and 'no admissible candidate within the tolerance' is an error, never a match. Decided (Verus, verbatim `search` and `within_tolerance` of the edge map-matching plugin, any tree, coordinate, tolerance and unit, "
               "road-class filter and vehicle parameters): a match is a candidate of the r-tree that is admissible (road class, vehicle restrictions) AND within the tolerance measured on the ground (great-circle distance to the "
               "record's location, converted to the tolerance's unit with the real table), it is the FIRST admissible candidate in the order the tree yields, and every candidate before it is within the tolerance too; no match "
               "means the candidates were exhausted without an admissible one or the first candidate beyond the tolerance came before any admissible one; without a tolerance nothing is rejected for distance; EdgeRtreeRecord::distance_2 (verbatim, f32 arithmetic as reals): the measure by which the tree orders its records is the squared coordinate distance from the query point to the record's LOCATION, the same location (the centroid of its geometry) that the tolerance is measured to; the vertex plugin's validate_tolerance (verbatim) accepts the matched vertex only if its great-circle distance, in the tolerance's unit, is below the tolerance. "
               "The pinned code compared the tree's squared difference of DEGREES with the tolerance in METRES (found by the witness, fixed in /repo bdc3795)")
NOT_DECIDED = ("that the r-tree yields its records nearest-first and agrees with an exhaustive scan (rstar, a dependency); that an order by squared degrees agrees with an order by distance on the ground; the great-circle formula itself "
               "(transcendental functions: uninterpreted metres); rstar's nearest_neighbor itself; reading the coordinates / road classes / vehicle parameters out of the query and writing one key into it (serde_json: deterministic reads and a one-key write, assumed)")
ASSUMPTIONS = ["A-REAL (f64 and, for distance_2, f32)", "the r-tree iterator as an opaque sequence of records (R3-dyn)", "road-class / vehicle-restriction admissibility as uninterpreted verdicts per edge id (VehicleRestriction::valid itself: unit c04_frontier)"]
