from driver import KaniUnit, VerusUnit, Harness as H
import itertools
ID = "C17"
LEVEL = "other"
CORE = "routee-compass-core"
MS = CORE + "/src/util/multiset.rs"


def gen():
    o = ["#[cfg(kani)]", "mod verif_c17 {", "    use super::*;",
         "    /// one shape: the iterator yields exactly n1*...*nm items, item t is the mixed-radix tuple of t (first axis fastest), then None",
         "    fn check(shape: &[usize]) {",
         "        let mut sets: Vec<Vec<u8>> = Vec::new();",
         "        let mut a = 0; while a < shape.len() { let mut v: Vec<u8> = Vec::new(); let mut k = 0; while k < shape[a] { v.push(kani::any()); k += 1; } sets.push(v); a += 1; }",
         "        let mut total = 1usize; let mut a = 0; while a < shape.len() { total *= shape[a]; a += 1; }",
         "        let mut it = MultiSet::from(&sets);",
         "        let mut t = 0usize;",
         "        while t < total {",
         "            let item = it.next();",
         "            assert!(item.is_some(), \"the iterator yields prod(len) items\");",
         "            let item = item.unwrap();",
         "            assert!(item.len() == shape.len());",
         "            let mut rem = t; let mut a = 0;",
         "            while a < shape.len() { let idx = rem % shape[a]; rem /= shape[a]; assert!(item[a] == sets[a][idx], \"item t is the mixed-radix tuple of t\"); a += 1; }",
         "            t += 1;",
         "        }",
         "        assert!(it.next().is_none(), \"then None\");",
         "        assert!(it.next().is_none(), \"None forever\");",
         "        kani::cover!(true);",
         "    }"]
    hs = []
    shapes = []
    for m in (1, 2, 3):
        for sh in itertools.product((1, 2, 3), repeat=m):
            shapes.append(sh)
    for sh in shapes:
        n = "c17_shape%d_" % len(sh) + "x".join(str(x) for x in sh) + "_end"
        prod = 1
        for x in sh:
            prod *= x
        o.append("    #[kani::proof]\n    #[kani::unwind(%d)]\n    fn %s() { check(&[%s]); }" % (prod + 3, n, ", ".join(str(x) for x in sh)))
        quick = sh in ((2,), (3, 2), (2, 2, 2), (1, 3, 2), (3, 3, 3))
        hs.append(H(n, "bounded", "MultiSet over shape %s: exactly %d items in mixed-radix order, then None forever" % (list(sh), prod), bound="shape %s, symbolic element values" % (list(sh),),
                    tier="quick" if quick else "thorough", timeout=200))
    o.append("}")
    return "\n".join(o) + "\n", hs


_t, _h = gen()
ms = KaniUnit("c17_ms", CORE, modules=[dict(file=MS, text=_t)], harnesses=_h)
# the per-shape Kani harnesses are kept for the thorough tier only (CBMC needs > 60 s even for a single axis of two values)
for h in _h:
    h.tier = "thorough"; h.carries = False; h.timeout = 300
_keep = []   # measured: CBMC needs 80 s for shape [2] and exceeds 300 s / the memory cap for every other shape: not registered
ms = KaniUnit("c17_ms", CORE, modules=[dict(file=MS, src="c12_multiset.rs")],
              exprs=[dict(file=MS, name="c12_final_pos_of", params="len: usize", ret="usize", anchor=r"sets\.iter\(\)\.map\(\|v\| (?P<expr>.*?)\)\.collect\(\)", subst=[("v.len()", "len")])],
              harnesses=_keep)
ms.native_witnesses = ["c17_wit_multiset_shape_sweep", "c12_wit_multiset_zero_axes_terminates", "c12_wit_multiset_empty_axis_is_empty_product"]
msv = VerusUnit("c17_multiset", "c17_multiset", rlimit=60, paired_kani=(ms, []))
gw = KaniUnit("c17_app_wit", "routee-compass", modules=[dict(file="routee-compass/src/app/compass/compass_app.rs", src="app_wit.rs")], harnesses=[])
gw.native_witnesses = ["c17_wit_grid_object_choices_do_not_leak", "c17_wit_flatten_partial_expansion"]
UNITS = [msv, ms, gw]
EXPLANATION = ("MultiSet::from / next extracted and verified by Verus for ANY number of axes and ANY lengths: next() returns the tuple at the current position and moves to the mixed-radix successor (first axis fastest), "
               "None after the last tuple; lemma: each step advances the denoted number by one, the last tuple denotes prod(len)-1 -- hence exactly the Cartesian product, each tuple once, in order. "
               "The iterator-adapter fragments are assumed helper contracts (listed); a native sweep over all shapes <= 3x3x3 runs in the thorough tier (per-shape Kani harnesses exceeded the time/memory caps and are not registered)")
NOT_DECIDED = "GridSearchPlugin::process (serde_json): mapping from index tuples to queries, object-valued options; json_array_flatten -- both only exercised by two native witnesses (thorough tier, concrete inputs, not proof)"
