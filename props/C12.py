from driver import KaniUnit, VerusUnit, Harness as H
ID = "C12"
LEVEL = "other"
CORE = "routee-compass-core"
APP = "routee-compass"
MS = CORE + "/src/util/multiset.rs"
CA = APP + "/src/app/compass/compass_app.rs"
msk = KaniUnit("c12_ms", CORE,
               exprs=[dict(file=MS, name="c12_final_pos_of", params="len: usize", ret="usize", anchor=r"sets\.iter\(\)\.map\(\|v\| (?P<expr>.*?)\)\.collect\(\)", subst=[("v.len()", "len")])],
               modules=[dict(file=MS, src="c12_multiset.rs")],
               harnesses=[H("c12_multiset_final_pos_no_underflow", "complete", "MultiSet::from: the per-axis last index expression does not underflow for any axis length (incl. the empty array)", timeout=120)])
msk.native_witnesses = ["c12_wit_multiset_zero_axes_terminates", "c12_wit_multiset_empty_axis_is_empty_product", "c17_wit_multiset_shape_sweep"]
chunk = KaniUnit("c12_chunk", APP,
                 exprs=[dict(file=CA, name="c12_plugin_chunk_size", params="len: usize, parallelism: usize", ret="usize",
                             anchor=r"let plugin_chunk_size =\s*(?P<expr>[^;]+);",
                             subst=[("queries.len()", "len"), ("self.parallelism", "parallelism")])],
                 modules=[dict(file=CA, src="c12_chunk.rs"), dict(file=CA, src="app_wit.rs")],
                 harnesses=[H("c12_chunk_size_nonzero", "complete", "CompassApp::run: chunk size != 0 for every batch size (u32) and parallelism >= 1 (u16) -- par_chunks(0) panics", timeout=200)])
chunk.native_witnesses = ['c12_wit_empty_batch', 'c12_wit_rejected_only_batches', 'c12_wit_same_origin_and_destination', 'c12_wit_inject_plugin_on_non_object_queries', 'c12_wit_grid_search_empty_array', 'c12_wit_ill_typed_vertex_fields', 'c12_wit_wrong_type_query_is_echoed', 'c06_wit_failing_child_of_an_expansion_does_not_take_its_siblings']
msv = VerusUnit("c17_multiset", "c17_multiset", rlimit=60, paired_kani=(msk, []))
gr = VerusUnit("c15_graph", "c15_graph", rlimit=60)
rn = VerusUnit("c06_run", "c06_run", rlimit=30, paired_kani=(chunk, []))
fw = KaniUnit("c12_format_wit", APP, modules=[dict(file=APP + "/src/app/compass/response/response_output_format.rs", src="c19_format_wit.rs")], harnesses=[])
fw.native_witnesses = ["c19_wit_csv_formatting_keeps_the_search_error"]
UNITS = [msv, gr, rn, msk, chunk, fw]
EXPLANATION = ("whole-application panic freedom / boundedness is outside both back ends (rayon, serde_json, plugins, files). Decided: kernels the statement names -- MultiSet (Verus, any number of axes: "
               "the iterator is the mixed-radix successor and stops after the last tuple; expression-level obligation for `len - 1`), the chunk-size expression of CompassApp::run against rayon's par_chunks(0) panic, "
               "Graph::out_edges_iter / in_edges_iter answer a vertex id outside the graph with no edges instead of an index panic (Verus, unit c15_graph), "
               "TerminationModel panic freedom (C10), Yen's spur range and no-progress loop (C13, fixed); CompassApp::run (unit c06_run, Verus on the verbatim function; the three rayon / itertools pipelines -- the input-plugin stage and the two batch runners -- are opaque helpers whose contracts ARE the assumption about rayon: every element processed exactly once, order kept): one response per query reaches the caller -- every rejected query's error response and, with responses kept in memory, one response per query that input processing made of the accepted ones -- and the response writer is asked to write EVERY response of the batch exactly once, rejected and run, under both persistence policies, with the run-time override of the policy honoured; the early return for a batch without runnable queries still returns and records the rejected ones")
NOT_DECIDED = "everything between these kernels: plugins over serde_json values (inject, grid search mapping, json_array_flatten), a panic in a rayon worker through any path not listed, memory / wall-clock bounds of a batch"
ASSUMPTIONS = ["rayon (unit c06_run): par_chunks / par_iter with map + collect / unzip process every element exactly once and keep the order of the input -- stated as the contracts of three opaque helpers", "rayon::par_chunks(n) panics iff n == 0 (documented)", "assumed helper contracts of the MultiSet unit (gather / zero prefix / final_pos)"]
