from driver import KaniUnit, VerusUnit, Harness as H
ID = "C19"
LEVEL = "other"
APP = "routee-compass"
RF = APP + "/src/app/compass/response/response_output_format.rs"
wit = KaniUnit("c19_wit", APP, modules=[dict(file=RF, src="c19_format_wit.rs")], harnesses=[])
wit.native_witnesses = ["c19_wit_csv_formatting_keeps_the_search_error"]
fm = VerusUnit("c19_format", "c19_format", rlimit=30, paired_kani=(wit, []))
aw = KaniUnit("c19_app_wit", APP, modules=[dict(file=APP + "/src/app/compass/compass_app.rs", src="app_wit.rs")], harnesses=[])
aw.native_witnesses = ["c19_wit_one_record_per_response_in_the_file"]
wm = KaniUnit("c19_write_mode_wit", APP, modules=[dict(file=APP + "/src/app/compass/response/write_mode.rs", src="c19_write_mode_wit.rs")], harnesses=[])
wm.native_witnesses = ["c19_wit_header_once_and_appending_runs_keep_earlier_records"]
UNITS = [fm, wit, aw, wm]
EXPLANATION = ("ONE clause of C19 only: 'writing a response never removes or replaces information (such as a search error) in the response handed back to the caller'. Decided (Verus, verbatim ResponseOutputFormat::format_response, "
               "both formats, any mapping): every top-level field the response had before formatting is still there with the same value afterwards -- at most ONE field that was not there is added (the reasons why CSV columns could "
               "not be filled); the JSON formats do not touch the response. The pinned code replaced the search error of a failed query by the CSV messages (found by the witness, fixed in /repo a75a949). A native witness runs batches through the real CompassApp::run with newline-delimited JSON file output (parallelism 1..3, both persistence policies): one parseable record per response in the file, input-rejected queries included (those were missing on the pinned code: fixed)")
NOT_DECIDED = ("the heart of C19: exactly one complete, uninterleaved record per response in the FILE for every parallelism and schedule (Arc<Mutex<File>>, writeln!, flush: Kani has no threads or files, Verus would have to assume "
               "the property); that a JSON record parses back to the response; CSV header and column order; appending runs")
ASSUMPTIONS = ["the two row pipelines of the Csv arm only READ the response (checked textually: their only use of it is `v.apply_mapping(response)`)", "serde_json::Value as an abstract map of top-level fields; `response[key] = v` sets that one key"]
