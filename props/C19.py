from driver import KaniUnit, VerusUnit, Harness as H
ID = "C19"
LEVEL = "other"
APP = "routee-compass"
RF = APP + "/src/app/compass/response/response_output_format.rs"
wit = KaniUnit("c19_wit", APP, modules=[dict(file=RF, src="c19_format_wit.rs")], harnesses=[])
wit.native_witnesses = ["c19_wit_csv_formatting_keeps_the_search_error", "c19_wit_csv_row_cells_follow_the_header_order", "c19_wit_csv_cells_are_the_mapping_applied_to_the_response"]
fm = VerusUnit("c19_format", "c19_format", rlimit=30, paired_kani=(wit, []))
aw = KaniUnit("c19_app_wit", APP, modules=[dict(file=APP + "/src/app/compass/compass_app.rs", src="app_wit.rs")], harnesses=[])
aw.native_witnesses = ["c19_wit_one_record_per_response_in_the_file"]
wm = KaniUnit("c19_write_mode_wit", APP, modules=[dict(file=APP + "/src/app/compass/response/write_mode.rs", src="c19_write_mode_wit.rs")], harnesses=[])
wm.native_witnesses = ["c19_wit_header_once_and_appending_runs_keep_earlier_records"]
sk = VerusUnit("c19_sink", "c19_sink", rlimit=30, paired_kani=(aw, []))
wv = VerusUnit("c19_write_mode", "c19_write_mode", rlimit=30, paired_kani=(wm, []))
UNITS = [fm, sk, wv, wit, aw, wm]
EXPLANATION = ("THREE mechanisms of C19, not the file contents under every schedule. (3) 'header written once when the file is created' (Verus, verbatim WriteMode::open_file, write_header, open_append over a ghost file system): append mode writes the "
               "header only when it CREATES the file and leaves an existing file -- its header and every record of earlier runs -- exactly as it is; overwrite mode starts the file again with its header; error mode refuses an existing file and leaves it untouched; no other file is touched. (1) 'format the whole row, then one writeln while holding the file lock' (Verus, verbatim ResponseSink::write_response, every sink incl. Combined at any nesting, "
               "a ghost log threaded through the function): a successful call writes, per File sink and in order, exactly ONE record = the whole formatted row + newline, as ONE write through a guard of THAT file's lock taken during the call; nothing written earlier is touched; "
               "a sink of kind None writes nothing; ResponseOutputPolicy::build (verbatim, recursion through Combined) establishes the data invariant write_response relies on (a flush rate <= 0 is refused: no division by zero in a worker) and a sink of the policy's shape; lemma: one complete record per File sink, none duplicated or truncated -- with std's Mutex (mutual exclusion) and append-mode writes ASSUMED this is 'no record is interleaved with another worker's'. "
               "(2) 'writing a response never removes or replaces information (such as a search error) in the response handed back to the caller'. Decided (Verus, verbatim ResponseOutputFormat::format_response, "
               "both formats, any mapping): every top-level field the response had before formatting is still there with the same value afterwards -- at most ONE field that was not there is added (the reasons why CSV columns could "
               "not be filled); the JSON formats do not touch the response. The pinned code replaced the search error of a failed query by the CSV messages (found by the witness, fixed in /repo a75a949). A native witness runs batches through the real CompassApp::run with newline-delimited JSON file output (parallelism 1..3, both persistence policies): one parseable record per response in the file, input-rejected queries included (those were missing on the pinned code: fixed)")
NOT_DECIDED = ("the file contents themselves under every schedule: the step from 'one whole record per write_response call, written through one guard' to 'the file holds exactly one uninterleaved record per response' rests on the ASSUMED "
               "semantics of std::sync::Mutex and of an append-mode File (neither back end models threads or files) and on CompassApp::run calling write_response once per response (rayon closures: witness only); that a JSON "
               "record parses back to the response; CSV column order; the real file system behind the three std calls of write_mode.rs (assumed semantics; the write-mode witness runs them on real files)")
ASSUMPTIONS = ["std::path::Path::exists, std::fs::write and OpenOptions::append/open as stated in the shims of unit c19_write_mode", "std::sync::Mutex: critical sections of one mutex exclude each other; what is written through a guard is appended contiguously while the guard is held; `writeln!(guard, \"{}\", row)` appends row + newline", "the flush counter does not reach 2^64", "the two row pipelines of the Csv arm only READ the response (checked textually: their only use of it is `v.apply_mapping(response)`)", "serde_json::Value as an abstract map of top-level fields; `response[key] = v` sets that one key"]
