from driver import KaniUnit, VerusUnit, Harness as H
ID = "C01"
LEVEL = "proof"
al = VerusUnit("al_astar", "al_astar", rlimit=60)
UNITS = [al]
EXPLANATION = ("run_a_star / advance_search / get_last_traversed_edge_id / Direction::{tree_key_vertex_id, terminal_vertex_id} extracted verbatim; "
               "loop invariants TW (entry edge joins parent to entry in the search direction), DOM, POT (labels strictly decrease along parents) "
               "verified for every graph, direction and model configuration satisfying the assumed callee contracts; no-revisit lemma")
NOT_DECIDED = "termination of the search; the k-shortest-path drivers as route producers"
