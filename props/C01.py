from driver import KaniUnit, VerusUnit, Harness as H
ID = "C01"
LEVEL = "proof"
al = VerusUnit("al_astar", "al_astar", rlimit=60)
CORE = "routee-compass-core"
wit = KaniUnit("c01_wit", CORE, modules=[dict(file=CORE + "/src/algorithm/search/search_instance.rs", src="world.rs"),
                                          dict(file=CORE + "/src/algorithm/search/search_algorithm.rs", src="c01_wit.rs")], harnesses=[])
wit.native_witnesses = ["c01_wit_box_world_all_pairs", "c01_wit_edge_oriented_destination_head_already_in_tree", "c01_wit_edge_oriented_origin_tail_on_the_connecting_path", "c01_wit_edge_oriented_adjacent", "c01_wit_single_via_routes_are_walks", "c03_wit_ksp_routes_report_their_own_retraversal", "c01_wit_ksp_edge_oriented_routes_are_walks"]
bt = VerusUnit("c01_backtrack", "c01_backtrack", rlimit=60)
eo = VerusUnit("c01_edge_oriented", "c01_edge_oriented", rlimit=60, paired_kani=(wit, []))
sv = VerusUnit("c13_single_via", "c13_single_via", rlimit=60, paired_kani=(wit, []))
dp = VerusUnit("c01_dispatch", "c01_dispatch", rlimit=60)
app = VerusUnit("c11_instance", "c11_instance", rlimit=30)
yr = VerusUnit("c13_yen_run", "c13_yen_run", rlimit=60, paired_kani=(wit, []))
ke = VerusUnit("c01_ksp_edge_oriented", "c01_ksp_edge_oriented", rlimit=60, paired_kani=(wit, []))
UNITS = [ke, al, bt, eo, dp, sv, yr, app, wit]
EXPLANATION = ("from EVERY tree entry a chain of parent links leads to the search origin (lemma_parents_reach_source, unit AL: pigeonhole on the finite tree with strictly decreasing labels) and never revisits a vertex (lemma_no_revisit); run_a_star / advance_search / get_last_traversed_edge_id / Direction::{tree_key_vertex_id, terminal_vertex_id} extracted verbatim; "
               "loop invariants TW (entry edge joins parent to entry in the search direction), DOM, POT (labels strictly decrease along parents) "
               "verified for every graph, direction and model configuration satisfying the assumed callee contracts; no-revisit lemma; "
               "single-via alternatives (unit c13_single_via): every returned alternative is a forward-tree route to a via vertex followed by the re-traversed reverse-tree route, and with TW of both trees it is a contiguous "
               "source-to-target walk (lemma_via_route_is_walk); reorient_reverse_route reverses the edge order and keeps the ids (verified); "
               "SearchAlgorithm::run_vertex_oriented (unit c01_dispatch, verbatim): a plain search hands back run_a_star's tree (search_post) and, with a destination, exactly one route, the backtrack of that tree (route_ok); lemma: it is a contiguous walk; "
               "SearchApp::run / run_vertex_oriented / run_edge_oriented (unit c11_instance, verbatim): the search is run FORWARD from the vertex (edge) the query was matched to, to its matched destination, on the instance built for THIS query, and the "
               "routes, trees and iteration count that reach the response are the algorithm's own; a query without a well-typed matched origin is an error, never a search from somewhere else")
NOT_DECIDED = "termination of the search; Yen's driver as a route producer; SearchAlgorithm::run_edge_oriented and the free fn run_edge_oriented (the edge-oriented wrappers around the k-shortest-path drivers)"
