from driver import KaniUnit, VerusUnit, Harness as H
ID = "C04"
LEVEL = "proof"
fr = VerusUnit("c04_frontier", "c04_frontier", rlimit=60)
al = VerusUnit("al_astar", "al_astar", rlimit=60)
APP = "routee-compass"
tw = KaniUnit("c04_reverse_turn_wit", APP, modules=[dict(file=APP + "/src/app/compass/config/frontier_model/turn_restrictions/turn_restriction_model.rs", src="c04_reverse_turn_wit.rs")], harnesses=[])
tw.native_witnesses = ["c04_wit_forward_search_avoids_the_restricted_turn", "c04_wit_reverse_search_avoids_the_restricted_turn", "c04_wit_edge_oriented_route_avoids_the_restricted_turn_after_the_origin_edge"]
rf = KaniUnit("c04_restriction_file_wit", APP, modules=[dict(file=APP + "/src/app/compass/config/frontier_model/vehicle_restrictions/vehicle_restriction_builder.rs", src="c04_restriction_file_wit.rs")], harnesses=[])
rf.native_witnesses = ["c04_wit_every_restriction_row_of_an_edge_is_kept"]
UNITS = [fr, al, tw, rf]
EXPLANATION = ("every frontier model's valid_frontier and VehicleRestriction::valid extracted verbatim and verified (Verus; reals for the unit conversions, physical 0.1 % lemmas "
               "for distance and weight units); the driver invariant PERM of unit AL: every tree entry's edge passed valid_frontier with the expanded vertex' stored edge and state")
NOT_DECIDED = ("RoadClassParser::read_query and VehicleParameters::from_query (serde_json); that a parent's stored edge is still the same when the route is read back "
               "(turn restrictions are decided for the pair (edge stored for the parent at expansion time, edge)); REVERSE searches: the pair is handed to the model in search order, not travel order -- a listed turn is not refused backwards (KNOWN FINDING C04-reverse-search-turn-pair-order, witness c04_wit_reverse_search_avoids_the_restricted_turn)")
ASSUMPTIONS = ["A-REAL for VehicleRestriction::valid and the unit conversions", "inner / underlying frontier models are opaque (uninterpreted answer)",
               "trait-object dispatch (Arc<dyn FrontierModel>) replaced by direct calls on shim structs"]
