from driver import KaniUnit, VerusUnit, Harness as H
ID = "C20"
LEVEL = "other"
APP = "routee-compass"
TF = APP + "/src/plugin/output/default/traversal/traversal_output_format.rs"
wit = KaniUnit("c20_wit", APP, modules=[dict(file=TF, src="c20_formats_wit.rs")], harnesses=[])
wit.native_witnesses = ["c20_wit_every_route_format_follows_the_edge_sequence", "c20_wit_tree_outputs_have_one_entry_per_branch"]
rg = VerusUnit("c20_route_geom", "c20_route_geom", rlimit=30, paired_kani=(wit, []))
uw = KaniUnit("c20_uuid_wit", APP, modules=[dict(file=APP + "/src/plugin/output/default/uuid/plugin.rs", src="c20_uuid_wit.rs")], harnesses=[])
uw.native_witnesses = ["c20_wit_identifier_table_row_i_is_vertex_i"]
uu = VerusUnit("c20_uuid", "c20_uuid", rlimit=30, paired_kani=(uw, []))
aw = KaniUnit("c20_app_wit", APP, modules=[dict(file=APP + "/src/app/compass/compass_app.rs", src="app_wit.rs")], harnesses=[])
aw.native_witnesses = ["c20_wit_outputs_of_all_plugins_describe_the_same_result"]
UNITS = [rg, uu, wit, uw, aw]
EXPLANATION = ("TWO mechanisms of C20 (geometry lookup by edge id and concatenation in route order; identifier lookup by matched vertex index), NOT the agreement between the encoders. Decided (Verus, verbatim UUIDOutputPlugin::process, any table and response): "
               "the identifiers attached to a successful response are rows `origin id` and `destination id` of the identifier table -- the ones stored for the MATCHED vertices -- under the plugin's two keys, and no other field changes; a vertex beyond the end of "
               "the table is an error, never a neighbour's identifier; a failed search is left untouched (a witness loads a table with blank rows through the real from_file: row i stays vertex i). Decided (Verus, verbatim traversal_ops::create_route_linestring, "
               "create_route_geojson, create_edge_geometry, create_branch_geometry, any route and geometry table): the route geometry is the concatenation of the STORED geometries of the route's edges IN ROUTE ORDER; a geometry missing from the "
               "table is an error, never a shortened or shifted geometry; the GeoJSON output has one feature per route edge IN ROUTE ORDER, each made of that edge's traversal record and ITS stored geometry; an edge's / branch's geometry is the table row of its edge id. A native witness runs every route output format of the real TraversalOutputFormat "
               "on one route (thorough): ids, per-edge records, GeoJSON features and the parsed-back WKT all follow the edge sequence")
NOT_DECIDED = ("agreement between the WKT / WKB / GeoJSON / JSON encoders (third-party crates); concat_linestrings itself (geo's point iterators: assumed to concatenate); tree outputs (HashMap iteration); reading the matched vertex ids out of the response and the identifier file (serde_json / file I/O: a deterministic read, and the witness)")
ASSUMPTIONS = ["geo_io_utils::concat_linestrings concatenates the points of its arguments in order (uninterpreted concatenation of a sequence)"]
