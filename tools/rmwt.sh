#!/bin/bash
# usage: rmwt.sh <name>
git -C /repo worktree remove --force /tmp/mut/$1 2>/dev/null || rm -rf /tmp/mut/$1
git -C /repo worktree prune
