#!/usr/bin/env python3
# development helper (not a registered check): proof-stability sweep.  Builds every Verus unit from /repo (or VERIF_REPO)
# and runs it under N different Z3 random seeds; a proof that flips under a seed would sooner or later flip under a
# harmless edit and raise a false alarm, so it has to be restructured until the sweep is clean.
# usage: stability.py [N] [unit ...]
import sys, os, glob, concurrent.futures as cf
sys.path.insert(0, '/verif/lib')
import driver as D
args = sys.argv[1:]
n = int(args.pop(0)) if args and args[0].isdigit() else 6
units = args or sorted(os.path.basename(p)[:-3] for p in glob.glob('/verif/contracts/verus/*.py')
                       if os.path.basename(p)[:-3] not in ('prelude', 'genlib'))
RL = {'al_astar': 60}


def one(job):
    name, seed = job
    scr = D.Scratch('stab-%s-%d' % (name, seed), want_kani=False)
    try:
        u = D.VerusUnit(name, name, rlimit=RL.get(name, 30))
        try:
            r = D.run_verus(scr, u, seed)
        except D.Undecided as e:
            return name, seed, 'UNDECIDED ' + str(e)[:200]
        bad = sorted(k for k, v in r['funcs'].items() if not v['ok'] and k.split('::')[-1] not in r['must_fail'])
        return name, seed, ('ok %.0fs' % r['wall']) if not bad else 'FAIL ' + ','.join(bad)
    finally:
        scr.cleanup()


jobs = [(u, s) for u in units for s in range(n)]
flaky = 0
with cf.ProcessPoolExecutor(max_workers=int(os.environ.get('JOBS', '8'))) as ex:
    for name, seed, res in ex.map(one, jobs):
        if not res.startswith('ok'):
            flaky += 1
        print('%-18s seed=%-3d %s' % (name, seed, res), flush=True)
print('unstable runs:', flaky)
sys.exit(1 if flaky else 0)
