#!/bin/bash
# development helper: confirm every seed a seeder left in /tmp/mut/<PID>/_out/m*, numbering them after the seeds already kept
# usage: confirm_round.sh <PID> [skip-list e.g. "m1 m3"]     (then removes the scratch worktree)
P=$1; SKIP=" $2 "
last=$(ls -d /verif/seeded/$P-m* 2>/dev/null | sed -E 's/.*-m([0-9]+)$/\1/' | sort -n | tail -1); last=${last:-0}
for d in $(ls -d /tmp/mut/$P/_out/m* | sort -V); do
  m=$(basename $d)
  case "$SKIP" in *" $m "*) echo "$P $m: skipped (duplicate of a kept seed)"; continue;; esac
  last=$((last + 1)); new=m$last
  if [ "$m" != "$new" ]; then mv $d /tmp/mut/$P/_out/_$new; fi
done
for d in $(ls -d /tmp/mut/$P/_out/_m* 2>/dev/null | sort -V); do mv $d /tmp/mut/$P/_out/$(basename $d | sed 's/^_//'); done
for d in $(ls -d /tmp/mut/$P/_out/m* | sort -V); do
  m=$(basename $d)
  case "$SKIP" in *" $m "*) [ -d /verif/seeded/$P-$m ] && continue;; esac
  [ -d /verif/seeded/$P-$m ] && continue
  /verif/tools/confirm_seed.sh $P $m 2>&1 | tail -2
done
/verif/tools/rmwt.sh $P
