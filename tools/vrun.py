#!/usr/bin/env python3
# development helper: build one Verus unit from /repo (or VERIF_REPO) and run verus on it, printing the errors
import sys, os, subprocess, json
sys.path.insert(0, '/verif/lib')
import driver as D
name = sys.argv[1]
scr = D.Scratch('vrun-' + name, want_kani=False)
try:
    u = D.VerusUnit(name, name, rlimit=int(os.environ.get('RLIMIT', '30')))
    try:
        r = D.run_verus(scr, u)
    except D.Undecided as e:
        print('UNDECIDED', e)
        out = os.path.join('/tmp/vs', name + '.rs')
        os.makedirs('/tmp/vs', exist_ok=True)
        if os.path.exists(os.path.join(scr.dir, name + '.rs')):
            open(out, 'w').write(open(os.path.join(scr.dir, name + '.rs')).read()); print('file:', out)
        sys.exit(2)
    out = os.path.join('/tmp/vs', name + '.rs'); os.makedirs('/tmp/vs', exist_ok=True)
    open(out, 'w').write(r['text'])
    print('file:', out, 'verified', r['verified'], 'errors', r['errors'], 'wall %.1fs' % r['wall'], 'smt_ms', r['smt_ms'])
    for e in r['errs']:
        print('---', e['fn'], '::', e['msg']); print(e['text'][:int(os.environ.get('ERRLEN','900'))])
    bad = [k for k, v in r['funcs'].items() if not v['ok']]
    print('failed fns:', bad, ' must_fail:', r['must_fail'])
    slow = sorted(r['funcs'].items(), key=lambda kv: -kv[1]['us'])[:5]
    print('slowest:', [(k, round(v['us']/1e6, 2)) for k, v in slow])
    if '-x' in sys.argv:
        for l in r['extraction']: print('  ', l)
        print(r['assumptions'])
finally:
    scr.cleanup()
