#!/usr/bin/env python3
# development helper: for every seeded change caught in the quick tier by a Verus obligation, list the KINDS of verifier errors per failing function
# (contract clause vs. assertion) -- used to decide how failures of inserted proof hints are classified.  Runs on the scratch worktree /tmp/mut/dev.
import json, os, subprocess, sys, re
W = '/tmp/mut/dev'
os.environ['VERIF_REPO'] = W
sys.path.insert(0, '/verif/lib')
import driver as D
res = json.load(open('/verif/seeded/MATRIX.json'))['results']
out = {}
for name in sorted(res):
    r = res[name]
    if r['verdict'] != 'caught (quick)':
        continue
    obs = r['runs']['quick']['obligations']
    units = sorted(set(o.split('::')[0] for o in obs))
    vunits = [u for u in units if os.path.exists('/verif/contracts/verus/%s.py' % u)]
    if not vunits:
        continue
    subprocess.run(['git', '-C', W, 'checkout', '-q', '--', '.'])
    if subprocess.run(['git', '-C', W, 'apply', '/verif/seeded/%s/patch.diff' % name]).returncode != 0:
        print(name, 'patch does not apply'); continue
    for u in vunits:
        scr = D.Scratch('audit-' + u, want_kani=False)
        try:
            try:
                rr = D.run_verus(scr, D.VerusUnit(u, u, rlimit=60))
            except D.Undecided as e:
                print(name, u, 'UNDECIDED'); continue
            kinds = {}
            for e in rr['errs']:
                if e['fn'].split('::')[-1] in rr['must_fail']:
                    continue
                kinds.setdefault(e['fn'], []).append(e['msg'][:60])
            only_assert = [f for f, ks in kinds.items() if all(k.startswith('assertion failed') for k in ks)]
            print(name, u, json.dumps(kinds), 'ONLY-ASSERT:' + ','.join(only_assert) if only_assert else '', flush=True)
        finally:
            scr.cleanup()
subprocess.run(['git', '-C', W, 'checkout', '-q', '--', '.'])
