#!/usr/bin/env python3
# regenerates MANIFEST.json from the table below (claims) -- edit here, not in MANIFEST.json
import json, os
V = '/verif'
CLAIMS = {
 'C01': ('proof', "Verus: run_a_star, backtrack::vertex_oriented_route and run_a_star_edge_oriented extracted verbatim every run; loop invariants TW/DOM/POT + no-revisit and contiguity lemmas for every graph, direction and model configuration; native witnesses (thorough) replay failures on the real drivers",
         "assumed: contracts of the search instance's callees (graph accessors, frontier/traversal models, priority_queue) as listed in evidence; termination of the loops not proved; the k-shortest-path drivers only through concrete witnesses; known finding C01-edge-oriented-destination-entry",
         "Verus loop invariants on verbatim-extracted driver code + lemmas", "3/C01 + AL"),
 'C02': ('other', "NOT optimality. Verus on the verbatim A* driver: relaxation step (a label is replaced only by a strictly smaller cost = near label + edge cost), re-queue with f = g + weighted estimate, invariant Q (queue priority never worse than the latest f: catches push_increase/push_decrease and flipped comparisons), advance_search hands out a least-f vertex; Kani: ReverseCost reverses the order of Cost; estimate >= 0",
         "least total cost itself and admissibility of the great-circle heuristic are NOT decided; priority_queue crate semantics assumed; dispatch (Dijkstra = weight 0) and CostModelService::build (serde_json) not covered", "Verus loop invariant + in-function assertions on extracted code; Kani complete harness", "3/C02"),
 'C03': ('proof', "Kani: bearing_to_destination (function contract) and Turn::from_angle complete over all i16; Verus: StateModel get/set/add for distance, time, energy (slot += converted increment, frame) with the accumulation lemma, and the per-edge state/cost split of EdgeTraversal::forward/reverse_traversal",
         "summary serialisation through serde_json not under contract; headings assumed in 0..=360 as documented; format! stubbed", "Kani function contracts + Verus contracts on extracted code", "3/C03"),
 'C05': ('proof', "Verus: run_a_star + advance_search under contract; 'no path' only from an exhausted queue, where invariant EXP gives a labelled set closed under permitted edges that does not contain the target; Ok with a target => target in tree",
         "assumed callee contracts as in C01; optimality of labels not claimed; queue exhaustion time not bounded", "Verus loop invariant EXP + postconditions on the verbatim driver", "3/C05 + AL"),
 'C06': ('other', "NOT schedule independence. Verus: apply_load_balancing_policy returns exactly `parallelism` bins that partition the batch (every query in exactly one bin, input order kept), parallelism 0 => Err; cache transparency of PredictionModelRecord::predict (shared with C08); Kani: min_bin (<= 3 bins); native witness: batches 1..9 x parallelism 1..4 through the real CompassApp::run (thorough)",
         "independence of the response multiset from the rayon schedule / chunking / batch order and isolation of failing queries are NOT decided (Kani has no threads, Verus no model of rayon)", "Verus loop invariant on extracted code + Kani bounded harness + native witness", "3/C06"),
 'C07': ('proof', "Kani function contracts on Cost::enforce_strictly_positive/non_negative over every f64; Verus (reals) on CostModel::{traversal_cost,access_cost,cost_estimate}, EdgeTraversal::{forward,reverse}_traversal, total_cost extracted verbatim: total is the floored weighted sum, > 0, access+traversal share == total",
         "A-REAL for the Verus part; cost_ops::calculate_* and VehicleCostRate::map_value are assumed contracts (closure pipelines rejected by Verus, CBMC time-outs)", "Kani proof_for_contract + Verus postconditions on extracted code", "3/C07"),
 'C09': ('proof', "Verus (reals): all six convert functions, From impls and create_time/speed/energy extracted verbatim, verified against spec tables generated from their own match arms; identity, linearity, 0.1% round trip, 0.1% physical factor, time=distance/speed within 0.31% as lemmas; Kani bit-precise on the real crate for rejection of non-positive inputs and (thorough) per-pair f64 round trips",
         "A-REAL for the Verus part (the Kani harnesses are bit-precise); newtype shims", "Verus on extracted code with generated spec tables + Kani complete harnesses", "3/C09"),
 'C10': ('proof', "Kani: TerminationModel::{terminate_search,test,explain_termination} complete for the leaf kinds (reduced widths for the runtime kind); Verus AL: the limit test is made on (tree size, turn number) at the top of every turn, a failing test is returned at once, iterations <= L lemma",
         "Instant::now stubbed by a symbolic clock; format! stubbed; Combined only with one member; limits inside ksp sub-searches not covered", "Kani complete harnesses + Verus loop invariant CNT", "3/C10"),
 'C11': ('proof', "Verus: CompactOrderedHashMap::{empty,len,is_empty,contains_key,get,get_index,insert} extracted verbatim, verified at every size against an abstract (slot map, value map) view with whole-view postcondition and representation invariant",
         "K,V instantiated at u64 (R6); HashMap::from assumed; get_pair/keys/iter/new at sizes >= 5 only by concrete witnesses; StateModel not yet under contract", "Verus data-structure invariant + whole-view postconditions on extracted code", "3/C11"),
 'C04': ('proof', "Verus: VehicleRestriction::valid (reals, physical 0.1% lemmas for distance/weight units) and the valid_frontier methods of the Combined, RoadClass, TurnRestriction, VehicleRestriction and EdgeCut models extracted verbatim; AL invariant PERM: every tree entry's edge passed valid_frontier",
         "A-REAL; inner/underlying models opaque; trait-object dispatch replaced by direct calls on shim structs; query parsing (serde_json) not under contract; turn restrictions decided for the pair stored at expansion time", "Verus postconditions + loop invariants on extracted code", "3/C04"),
 'C08': ('proof', "Verus (reals): vehicle_ops, PredictionModelRecord::predict (cache hit == miss through a call-site obligation on cache.update), get_phev_energy, BEV/PHEV::consume_energy, BEV::best_case_energy, Energy::create extracted verbatim; soc' = clamp(soc - 100*delta/capacity) in [0,100]; Kani bit-precise range of soc_from_battery_and_delta",
         "A-REAL for the Verus unit; StateModel accessors / prediction model / FloatCachePolicy / f64::clamp as assumed contracts; update_from_query (serde_json) and ICE not covered", "Verus postconditions on extracted code + Kani complete harness", "3/C08"),
 'C15': ('other', "in-memory half only: the per-row adjacency update of EdgeLoader::try_from (closure extracted by rule R5, Verus), Graph::{get_edge,get_vertex,src_vertex_id,dst_vertex_id,edge_triplet} (lookup by id = lookup by index; NotFound errors), the adjacency container at every size (C11 unit), allocation sizes of adj/rev (Kani R10)",
         "file reading / parsing / decompression / line counting are NOT decided; that ids equal row positions is an assumption", "Verus on extracted code (incl. closure extraction) + Kani expression-level obligation", "3/C15"),
 'C17': ('other', "Verus: MultiSet::from/next for ANY number of axes and lengths: next() returns the tuple at the current position and moves to the mixed-radix successor, None after the last tuple; lemma: each step advances the denoted number by one and the last tuple denotes prod(len)-1 (hence exactly the Cartesian product, each tuple once); native sweep over shapes <= 3x3x3 (thorough)",
         "iterator-adapter fragments of next/from are assumed helper contracts; GridSearchPlugin::process (serde_json) mapping from tuples to queries and json_array_flatten are NOT decided", "Verus loop invariant + induction lemmas on extracted code", "3/C17"),
 'C18': ('other', "Verus on the four verbatim functions of scc.rs for every graph: each DFS call extends the stack by exactly the newly visited vertices and leaves all their successors visited; all_strongly_connected_componenets returns a PARTITION of the vertex ids; largest returns one of the components and none is longer",
         "mutual reachability / maximality of the classes (finishing-order argument) and termination are NOT decided; Graph accessors assumed", "Verus recursion + loop invariants on extracted code", "3/C18"),
 'C14': ('proof', "Verus: find_nearest_index (unbounded loop incl. termination), Interp1D/2D/3D::linear and Interpolator::validate_inputs extracted verbatim: bracketing cell, multilinear form, min/max of the corners, exactness at grid points (1-D), continuity lemma, out-of-grid rejection",
         "A-REAL; InterpND, InterpolationSpeedGradeModel and the agreement with the smartcore model are not covered; axes with >= 2 strictly increasing points", "Verus loop invariants + nonlinear lemmas on extracted code", "3/C14"),
 'C12': ('other', "kernels only: MultiSet::from/next (Verus, any number of axes: mixed-radix successor, stops after the last tuple), expression-level Kani obligations for the per-axis `len - 1` and for the chunk size handed to rayon's par_chunks (never 0), TerminationModel panic freedom (C10 harnesses), native witnesses (empty batch through CompassApp::run, degenerate grids)",
         "whole-application panic freedom and boundedness (plugins over serde_json, rayon workers, files) are NOT decided; rayon par_chunks(0) panic assumed as documented", "Verus on extracted code + Kani expression-level obligations (rule R10) + native witnesses", "3/C12"),
 'C13': ('other', "decision kernels only: RouteSimilarityFunction::is_similar (Kani function contract, complete), KspTerminationCriteria::terminate_search (complete over usize with stated product bound), Yen spur-range expression obligation (R10); the drivers themselves are not under contract",
         "the k-shortest-path drivers' validity/distinctness/count/termination are NOT decided; known finding C13-yen-one-edge-underflow", "Kani function contracts on decision kernels + expression-level obligations", "3/C13"),
}
NA = {
 'C16': "nearest-neighbour search is rstar's and the tolerance is a haversine (transcendental) distance: no contract within reach expresses agreement with an exhaustive scan",
 'C19': "record integrity under concurrent writers (Arc<Mutex<File>>) and file contents: Kani has no threads/files, Verus would have to assume the property",
 'C20': "agreement between WKT/WKB/GeoJSON/JSON encoders is a property of third-party encoder crates; no contract within reach",
}
def main():
    checks = []
    for pid, (cat, text, note, tech, ref) in sorted(CLAIMS.items()):
        if not os.path.exists(os.path.join(V, 'props', pid + '.py')):
            continue
        checks.append({"property_id": pid, "quick_cmd": "./check %s --tier quick" % pid, "thorough_cmd": "./check %s --tier thorough" % pid,
                       "evidence_file": "/verif/evidence/%s.json" % pid, "replay_cmd_template": "./check %s --replay {path}" % pid, "engine": "check",
                       "level_claimed": {"category": cat, "text": text, "design_ref": "DESIGN.md section " + ref}, "level_note": note, "technique": tech})
    claimed = [c['property_id'] for c in checks]
    m = {"version": 1, "setup_cmd": "./setup.sh",
         "hooks": {"guard": "kani", "enable": "no source hooks are committed to /repo: contract attributes (#[cfg_attr(kani, kani::requires/ensures)]) and #[cfg(kani)] harness modules are injected add-only into a scratch copy of /repo's working tree at check time (cfg(kani) is set by cargo-kani itself); Verus units are extracted from the same working tree every run",
                   "baseline_off_cmd": "cd /repo/rust && cargo test --workspace --no-fail-fast --offline", "source_commits": [], "add_only": True},
         "engines": [{"name": "check", "path": "/verif/check", "serves_properties": claimed,
                      "kind_free_text": "contract-based deductive verification: Verus on functions extracted verbatim from /repo every run (logged rewrite rules) + Kani function contracts / complete harnesses overlaid on the real crates; native witnesses replay failures outside the verifier"}],
         "checks": checks,
         "notes": "exit 0 = all obligations discharged (KNOWN-FINDING lines for listed findings); exit 1 = VIOLATION; exit 2 = undecided (lost anchor, unsupported construct, resource limit), never an alarm. /repo carries fix: commits only (bc55958, eede489, 78ef5fe, 43a7634, cfef63b, 12bf6bd, 093e561); see known_findings.json.",
         "not_applicable": [{"property_id": p, "reason": r} for p, r in sorted(NA.items()) if p not in claimed]}
    json.dump(m, open(os.path.join(V, 'MANIFEST.json'), 'w'), indent=1)
    print('claimed', claimed)
main()
