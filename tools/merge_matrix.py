#!/usr/bin/env python3
# development helper: merge the MATRIX.json files of several `vp run` seed matrices into /verif/seeded/MATRIX.{json,md}.
# usage: merge_matrix.py <run>:<verif commit>[:<PID,PID,..>] ...   (later arguments win; a PID list restricts what is taken from that run)
# every row records the /repo commit (head) and the /verif commit the checks ran at
import json, os, sys, glob
V = '/verif'
res = {}
for arg in sys.argv[1:]:
    parts = arg.split(':')
    run, commit = parts[0], parts[1]
    only = set(parts[2].split(',')) if len(parts) > 2 and parts[2] else None
    p = '/root/.vp/runs/%s/verif/seeded/MATRIX.json' % run
    log = open('/root/.vp/runs/%s/log' % run, errors='replace').read()
    ran = set(l.split()[0] for l in log.splitlines() if l[:1] == 'C' and '-m' in l.split()[0])
    r = json.load(open(p))['results']
    for k, v in r.items():
        if k not in ran:
            continue   # stale entry inherited from the snapshot's committed MATRIX.json
        if only and k.split('-')[0] not in only and k not in only:
            continue
        v = dict(v, verif=commit)
        res[k] = v
OBSOLETE = {'C05-m2': 'obsolete: it broke the property only through the container defect that fix bc55958 removed (iteration by index is now complete), the change is harmless on the repaired tree',
            'C12-m4': 'obsolete: the branch it changed is gone after fix a1c866a'}
for k, why in OBSOLETE.items():
    if k not in res or not res[k]['verdict'].startswith('caught'):
        base = res.get(k) or dict(property=k.split('-')[0], runs={}, summary=json.load(open('%s/seeded/%s/meta.json' % (V, k))).get('summary', '')[:220])
        res[k] = dict(base, verdict=why)
have = set(os.path.basename(d) for d in glob.glob(V + '/seeded/C*-m*'))
for k in sorted(have - set(res)):
    res[k] = dict(property=k.split('-')[0], verdict='not run in the last matrices', runs={}, summary=json.load(open('%s/seeded/%s/meta.json' % (V, k))).get('summary', '')[:220])
json.dump(dict(results=res), open(V + '/seeded/MATRIX.json', 'w'), indent=1)
with open(V + '/seeded/MATRIX.md', 'w') as f:
    f.write('# seeded changes vs checks (tools/seed_matrix.py runs merged by tools/merge_matrix.py; every run on a scratch worktree of /repo at `repo`, checks of /verif at `verif`)\n\n'
            '| seed | verdict | failing obligations | repo | verif | what was changed |\n|---|---|---|---|---|---|\n')
    for k in sorted(res, key=lambda s: (s.split('-')[0], int(s.split('-m')[1]))):
        r = res[k]; runs = r.get('runs', {})
        obs = (runs.get('quick', {}).get('obligations') or []) or (runs.get('thorough', {}).get('obligations') or [])
        f.write('| %s | %s | %s | %s | %s | %s |\n' % (k, r['verdict'], ', '.join(obs)[:200], r.get('head', ''), r.get('verif', ''), r.get('summary', '').replace('|', '/')))
import collections
c = collections.Counter(v['verdict'].split(' on HEAD')[0] for v in res.values())
print(len(res), dict(c))
