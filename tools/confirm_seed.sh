#!/bin/bash
# usage: confirm_seed.sh <PID> <mN>   (works in the scratch worktree /tmp/mut/<PID>, never in /repo)
# confirms: patch applies; suite passes with patch; demo fails with patch; demo passes without patch.
# on success copies the seed to /verif/seeded/<PID>-<mN>/ with the confirmation recorded in meta.json
set -u
P=$1; M=$2; W=/tmp/mut/$P; O=$W/_out/$M
cd $W || exit 2
git checkout -q -- . ; git clean -fdq -e _out -e target -e _TASK.md -e Cargo.lock >/dev/null 2>&1
demo_cmd=$(python3 -c "import json;print(json.load(open('$O/meta.json'))['demo_cmd'])")
demo_cmd=${demo_cmd#cd rust && }; demo_cmd=${demo_cmd#cd $W/rust && }
run_demo() { (cd $W/rust && eval "$demo_cmd" >/tmp/mut/$P.$M.demo.log 2>&1); }
# 1. demo without patch
git apply $O/demo.diff || { echo "$P $M: demo.diff does not apply"; exit 1; }
run_demo; d0=$?
# 2. demo with patch
git apply $O/patch.diff || { echo "$P $M: patch.diff does not apply"; exit 1; }
run_demo; d1=$?
# 3. suite with patch only
git checkout -q -- . ; git clean -fdq -e _out -e target -e _TASK.md -e Cargo.lock >/dev/null 2>&1
git apply $O/patch.diff
(cd rust && cargo test --workspace --no-fail-fast --offline >/tmp/mut/$P.$M.suite.log 2>&1); s=$?
npass=$(grep -E "^test result: ok" /tmp/mut/$P.$M.suite.log | sed -E 's/.* ([0-9]+) passed.*/\1/' | paste -sd+ | bc)
nfail=$(grep -cE "^test .* FAILED" /tmp/mut/$P.$M.suite.log)
git checkout -q -- . ; git clean -fdq -e _out -e target -e _TASK.md -e Cargo.lock >/dev/null 2>&1
echo "$P $M: demo_without_patch_rc=$d0 demo_with_patch_rc=$d1 suite_rc=$s passed=$npass failed=$nfail"
if [ $d0 = 0 ] && [ $d1 != 0 ] && [ $s = 0 ]; then
  D=/verif/seeded/$P-$M; mkdir -p $D; cp $O/patch.diff $O/demo.diff $D/
  python3 - <<PY
import json
m=json.load(open('$O/meta.json'))
m['confirmed']={'by':'tools/confirm_seed.sh in a scratch worktree of /repo@$(git -C $W rev-parse --short HEAD)','demo_without_patch':'pass','demo_with_patch':'fail','suite_with_patch':'pass (%s tests, 0 failed)'%'$npass','ran':['git apply demo.diff; $demo_cmd','git apply patch.diff; $demo_cmd','cargo test --workspace --no-fail-fast --offline']}
json.dump(m,open('$D/meta.json','w'),indent=1)
PY
  echo "$P $M: KEPT"
else
  echo "$P $M: REJECTED"
fi
