#!/opt/veriftools/pyvenv/bin/python
# helper: validate MANIFEST.json and all evidence files against the given schemas
import json, glob, jsonschema, sys
ok = True
try:
    jsonschema.validate(json.load(open('/verif/MANIFEST.json')), json.load(open('/root/.vp/MANIFEST.schema.json')))
except Exception as e:
    ok = False; print('MANIFEST:', str(e)[:500])
es = json.load(open('/root/.vp/EVIDENCE.schema.json'))
for f in sorted(glob.glob('/verif/evidence/*.json')):
    try:
        jsonschema.validate(json.load(open(f)), es)
    except Exception as e:
        ok = False; print(f, str(e)[:500])
print('valid' if ok else 'INVALID')
sys.exit(0 if ok else 1)
