#!/bin/bash
# usage: run_seeds.sh <PID> [tier]  -- applies every /verif/seeded/<PID>-*/patch.diff to /repo in turn, runs the check, reverts
P=$1; T=${2:-quick}
cd /verif
[ -z "$(git -C /repo status --porcelain)" ] || { echo "/repo not clean"; exit 2; }
for d in seeded/$P-*; do
  git -C /repo apply $PWD/$d/patch.diff || { echo "$d: patch does not apply"; continue; }
  out=$(./check $P --tier $T 2>/dev/null); rc=$?
  git -C /repo checkout -- .
  echo "== $d rc=$rc"; echo "$out" | grep -E "^VIOLATION|^UNDECIDED|^KNOWN" | cut -c1-260
done
git -C /repo status --porcelain
