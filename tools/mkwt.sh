#!/bin/bash
# helper (not used by any registered check): scratch worktree of /repo for seeded-change work
# usage: mkwt.sh <name>   -> /tmp/mut/<name>  (with Cargo.lock and a warm target/)
set -e
d=/tmp/mut/$1
mkdir -p /tmp/mut
git -C /repo worktree add --detach "$d" HEAD >/dev/null 2>&1
cp /repo/rust/Cargo.lock "$d/rust/Cargo.lock"
cp -r /repo/rust/target "$d/rust/target"
echo "$d"
